// API probe (C19): "every operation that the width-1 vector of an element type
// offers is declared, defined and linkable for every wider vector of that
// element type".
//   phase 1 (default):      detection only; prints one line per (operation, type):
//                           op type declared_w1 declared
//   phase 2 (-DVH_PHASE=2): additionally *calls* every declared operation once;
//                           built at -O0 so that the linker lists every function
//                           that is declared but not defined.
//   -DVH_TU2:               the same code as a second translation unit (no main): the
//                           two objects are linked together, so a header that emits a
//                           non-inline definition shows up as "multiple definition".
#include "common/types.hpp"

#include <avel/Avel.hpp>

#include <cstdio>
#include <type_traits>
#include <utility>

#ifndef VH_PHASE
#define VH_PHASE 1
#endif

template<class T>
static T& mk() {
    alignas(T) static unsigned char storage[sizeof(T)];   // never executed: no constructor needed
    return *reinterpret_cast<T*>(storage);
}
static volatile int g_sink;
template<class T>
static void sink(const T&) { g_sink = g_sink + int(sizeof(T)); }

template<class V>
struct idx_of {
    typedef typename std::conditional<sizeof(typename V::scalar) == 8, std::int64_t, std::int32_t>::type IS;
    typedef avel::Vector<IS, V::width> type;
};

#define V_ mk<V>()
#define M_ mk<typename V::mask>()
#define S_ mk<typename V::scalar>()
#define I_ mk<typename idx_of<V>::type>()
#define P_ (&mk<typename V::scalar>())
#define LL_ mk<long long>()
#define U32_ mk<std::uint32_t>()

// X(id, expression)
#define ALL_OPS(X)                                                                      \
    X(op_add, V_ + V_) X(op_sub, V_ - V_) X(op_mul, V_ * V_) X(op_div, V_ / V_) X(op_mod, V_ % V_) \
    X(op_add_eq, V_ += V_) X(op_sub_eq, V_ -= V_) X(op_mul_eq, V_ *= V_) X(op_div_eq, V_ /= V_) X(op_mod_eq, V_ %= V_) \
    X(op_neg, -V_) X(op_pos, +V_) X(op_inc, ++V_) X(op_dec, --V_) X(op_postinc, V_++) X(op_postdec, V_--) \
    X(op_and, V_ & V_) X(op_or, V_ | V_) X(op_xor, V_ ^ V_) X(op_not, ~V_) \
    X(op_and_eq, V_ &= V_) X(op_or_eq, V_ |= V_) X(op_xor_eq, V_ ^= V_) \
    X(op_shl, V_ << LL_) X(op_shr, V_ >> LL_) X(op_shl_v, V_ << V_) X(op_shr_v, V_ >> V_) \
    X(op_shl_eq, V_ <<= LL_) X(op_shr_eq, V_ >>= LL_) X(op_shl_v_eq, V_ <<= V_) X(op_shr_v_eq, V_ >>= V_) \
    X(op_eq, V_ == V_) X(op_ne, V_ != V_) X(op_lt, V_ < V_) X(op_le, V_ <= V_) X(op_gt, V_ > V_) X(op_ge, V_ >= V_) \
    X(ctor_scalar, V(S_)) X(ctor_mask, V(M_)) X(to_mask, typename V::mask(V_)) X(to_array, avel::to_array(V_)) \
    X(extract0, avel::extract<0>(V_)) X(insert0, avel::insert<0>(V_, S_)) \
    X(bit_shift_left1, avel::bit_shift_left<1>(V_)) X(bit_shift_right1, avel::bit_shift_right<1>(V_)) \
    X(rotl_ct, avel::rotl<1>(V_)) X(rotl_s, avel::rotl(V_, LL_)) X(rotl_v, avel::rotl(V_, V_)) \
    X(rotr_ct, avel::rotr<1>(V_)) X(rotr_s, avel::rotr(V_, LL_)) X(rotr_v, avel::rotr(V_, V_)) \
    X(count, avel::count(V_)) X(any, avel::any(V_)) X(all, avel::all(V_)) X(none, avel::none(V_)) \
    X(set_bits, avel::set_bits(M_)) X(keep, avel::keep(M_, V_)) X(clear, avel::clear(M_, V_)) X(blend, avel::blend(M_, V_, V_)) \
    X(byteswap, avel::byteswap(V_)) X(max, avel::max(V_, V_)) X(min, avel::min(V_, V_)) X(minmax, avel::minmax(V_, V_)) \
    X(clamp, avel::clamp(V_, V_, V_)) X(negate, avel::negate(M_, V_)) X(abs, avel::abs(V_)) X(neg_abs, avel::neg_abs(V_)) \
    X(average, avel::average(V_, V_)) X(midpoint, avel::midpoint(V_, V_)) \
    X(load_n, avel::load<V>(P_, U32_)) X(load_ct, avel::load<V>(P_)) X(aligned_load_n, avel::aligned_load<V>(P_, U32_)) X(aligned_load_ct, avel::aligned_load<V>(P_)) \
    X(store_n, avel::store(P_, V_, U32_)) X(store_ct, avel::store(P_, V_)) X(aligned_store_n, avel::aligned_store(P_, V_, U32_)) X(aligned_store_ct, avel::aligned_store(P_, V_)) \
    X(gather_n, avel::gather<V>(P_, I_, U32_)) X(gather_ct, avel::gather<V>(P_, I_)) X(scatter_n, avel::scatter(P_, V_, I_, U32_)) X(scatter_ct, avel::scatter(P_, V_, I_)) \
    X(div, avel::div(V_, V_)) X(popcount, avel::popcount(V_)) X(countl_zero, avel::countl_zero(V_)) X(countl_one, avel::countl_one(V_)) \
    X(countr_zero, avel::countr_zero(V_)) X(countr_one, avel::countr_one(V_)) X(countl_sign, avel::countl_sign(V_)) \
    X(bit_width, avel::bit_width(V_)) X(bit_floor, avel::bit_floor(V_)) X(bit_ceil, avel::bit_ceil(V_)) X(has_single_bit, avel::has_single_bit(V_)) \
    X(fmax, avel::fmax(V_, V_)) X(fmin, avel::fmin(V_, V_)) X(fdim, avel::fdim(V_, V_)) X(fmod, avel::fmod(V_, V_)) X(frac, avel::frac(V_)) \
    X(sqrt, avel::sqrt(V_)) X(ceil, avel::ceil(V_)) X(floor, avel::floor(V_)) X(trunc, avel::trunc(V_)) X(round, avel::round(V_)) \
    X(nearbyint, avel::nearbyint(V_)) X(rint, avel::rint(V_)) X(frexp, avel::frexp(V_, &I_)) X(ldexp, avel::ldexp(V_, I_)) X(scalbn, avel::scalbn(V_, I_)) \
    X(ilogb, avel::ilogb(V_)) X(logb, avel::logb(V_)) X(copysign, avel::copysign(V_, V_)) X(fpclassify, avel::fpclassify(V_)) \
    X(isfinite, avel::isfinite(V_)) X(isinf, avel::isinf(V_)) X(isnan, avel::isnan(V_)) X(isnormal, avel::isnormal(V_)) X(signbit, avel::signbit(V_)) \
    X(isgreater, avel::isgreater(V_, V_)) X(isgreaterequal, avel::isgreaterequal(V_, V_)) X(isless, avel::isless(V_, V_)) \
    X(islessequal, avel::islessequal(V_, V_)) X(islessgreater, avel::islessgreater(V_, V_)) X(isunordered, avel::isunordered(V_, V_)) \
    X(m_and, M_ & M_) X(m_or, M_ | M_) X(m_xor, M_ ^ M_) X(m_not, !M_) X(m_land, M_ && M_) X(m_lor, M_ || M_) X(m_eq, M_ == M_) X(m_ne, M_ != M_) \
    X(m_count, avel::count(M_)) X(m_any, avel::any(M_)) X(m_all, avel::all(M_)) X(m_none, avel::none(M_)) \
    X(m_extract0, avel::extract<0>(M_)) X(m_insert0, avel::insert<0>(M_, true)) \
    X(den_ctor, avel::Denominator<V>(V_)) X(den_bcast, avel::Denominator<V>(mk<avel::Denominator<typename V::scalar>>())) \
    X(den_div, div(V_, mk<avel::Denominator<V>>())) X(den_quot, V_ / mk<avel::Denominator<V>>()) X(den_rem, V_ % mk<avel::Denominator<V>>()) \
    X(den_value, mk<avel::Denominator<V>>().value())

#define DECL(id, EXPR)                                                                   \
    template<class V, class = void> struct d_##id : std::false_type {};                  \
    template<class V> struct d_##id<V, decltype(void(EXPR))> : std::true_type {};        \
    template<class V> typename std::enable_if<d_##id<V>::value>::type call_##id() { sink(((EXPR), 0)); } \
    template<class V> typename std::enable_if<!d_##id<V>::value>::type call_##id() {}
ALL_OPS(DECL)

template<class V, class V1>
static void report(const char* tn) {
#define REP(id, EXPR) std::printf("%s %s %d %d\n", #id, tn, int(d_##id<V1>::value), int(d_##id<V>::value));
    ALL_OPS(REP)
#if VH_PHASE == 2
#define CALL(id, EXPR) call_##id<V>();
    if (g_sink == 12345) { ALL_OPS(CALL) }   // never executed, but must link
#endif
}

#ifdef VH_TU2
int main_second_translation_unit() {
#else
int main() {
#endif
#define RUN(X) report<avel::vec##X, avel::Vector<avel::vec##X::scalar, 1>>(#X);
    VH_ALL_TYPES(RUN)
    return 0;
}
