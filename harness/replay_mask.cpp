// TLC -> code replay for masks (C03): executes every transition of the state
// graph TLC generated from spec/Gen_Mask.tla on the real Vector_mask types and
// compares every observer of the result with the post-state TLC computed.
// Script line:  <pre> <op> <arg1> <arg2> <post>      (masks as integers)
// Output (ndjson, one line per disagreement and a final summary line):
//   {"e":"mismatch","t":..,"op":..,"pre":..,"a1":..,"a2":..,"expected":..,"observer":..,"got":..,"sig":..}
// usage: replay_mask <script> <N> <out-file>
#include "common/inputs.hpp"
#include "common/types.hpp"
#include "common/vh.hpp"

#include <fstream>
#include <sstream>

using namespace vh;

struct Edge {
    std::uint64_t pre, a1, a2, post;
    std::string op;
};
static std::vector<Edge> g_edges;
static FILE* g_out;
static unsigned long g_replayed = 0, g_mismatch = 0;

template<class V>
struct Rep {
    typedef typename V::scalar S;
    typedef typename V::mask M;
    enum { N = V::width };
    typedef std::array<bool, N> AB;

    template<unsigned I, int D = 0>
    struct Ins {
        static M at(M m, unsigned i, bool b) { return i == I ? avel::insert<I>(m, b) : Ins<I - 1>::at(m, i, b); }
    };
    template<int D>
    struct Ins<0, D> {
        static M at(M m, unsigned, bool b) { return avel::insert<0>(m, b); }
    };
    static AB bits(std::uint64_t v) {
        AB a;
        for (unsigned i = 0; i < N; ++i) a[i] = (v >> i) & 1u;
        return a;
    }
    static void report(const char* tn, const Edge& e, const char* observer, std::uint64_t got, int sg) {
        ++g_mismatch;
        std::fprintf(g_out, "{\"e\":\"mismatch\",\"t\":\"%s\",\"n\":%u,\"o\":\"%s\",\"pre\":%lu,\"a1\":%lu,\"a2\":%lu,\"expected\":%lu,\"observer\":\"%s\",\"got\":%lu,\"sig\":\"%s\"}\n",
                     tn, unsigned(N), e.op.c_str(), (unsigned long) e.pre, (unsigned long) e.a1, (unsigned long) e.a2, (unsigned long) e.post, observer,
                     (unsigned long) got, signame(sg));
    }
    static void run(const char* tn, unsigned n) {
        if (n != N) return;
        set_label(tn, "replay_mask");
        const std::uint64_t full = N == 64 ? ~0ull : ((1ull << N) - 1);
        for (const Edge& e : g_edges) {
            AB pre = bits(e.pre), c = bits(e.a1);
            opaque(pre);
            opaque(c);
            M r(false);
            int sg = guarded([&] {
                M m(pre);
                if (e.op == "m_not") r = !m;
                else if (e.op == "m_and") r = m & M(c);
                else if (e.op == "m_or") r = m | M(c);
                else if (e.op == "m_xor") r = m ^ M(c);
                else if (e.op == "m_land") r = m && M(c);
                else if (e.op == "m_lor") r = m || M(c);
                else if (e.op == "m_and_eq") { m &= M(c); r = m; }
                else if (e.op == "m_or_eq") { m |= M(c); r = m; }
                else if (e.op == "m_xor_eq") { m ^= M(c); r = m; }
                else if (e.op == "m_insert") r = Ins<N - 1>::at(m, unsigned(e.a1), e.a2 != 0);
                else if (e.op == "m_from_bool") { m = (e.a1 != 0); r = m; }
                else if (e.op == "m_from_array") r = M(c);
            });
            ++g_replayed;
            if (sg) {
                report(tn, e, "signal", 0, sg);
                continue;
            }
            // project the real object through every observer
            int l[N];
            mask_lanes(r, l);
            std::uint64_t lanes = 0, tv = 0;
            auto tva = avel::to_array(V(r));
            for (unsigned i = 0; i < N; ++i) {
                if (l[i]) lanes |= 1ull << i;
                S one = S(1);
                if (std::memcmp(&tva[i], &one, sizeof(S)) == 0) tv |= 1ull << i;
            }
            unsigned pc = 0;
            for (unsigned i = 0; i < N; ++i) pc += (e.post >> i) & 1u;
            if (lanes != e.post) report(tn, e, "extract", lanes, 0);
            if (tv != e.post) report(tn, e, "to_vector", tv, 0);
            if (avel::count(r) != pc) report(tn, e, "count", avel::count(r), 0);
            if (avel::any(r) != (pc > 0)) report(tn, e, "any", avel::any(r), 0);
            if (avel::all(r) != (pc == N)) report(tn, e, "all", avel::all(r), 0);
            if (avel::none(r) != (pc == 0)) report(tn, e, "none", avel::none(r), 0);
            // whole-register comparison against a freshly constructed mask of the expected value
            AB ex = bits(e.post);
            opaque(ex);
            if (!(r == M(ex))) report(tn, e, "eq_expected", 0, 0);
            if (r != M(ex)) report(tn, e, "ne_expected", 1, 0);
            (void) full;
        }
    }
};

int main(int argc, char** argv) {
    if (argc < 4) return 2;
    std::ifstream in(argv[1]);
    unsigned n = unsigned(std::atoi(argv[2]));
    g_out = std::fopen(argv[3], "w");
    if (!in || !g_out) return 2;
    std::string line;
    while (std::getline(in, line)) {
        std::istringstream ss(line);
        Edge e;
        if (ss >> e.pre >> e.op >> e.a1 >> e.a2 >> e.post) g_edges.push_back(e);
    }
    install_handlers();
#define RUN_R(X) Rep<avel::vec##X>::run(#X, n);
    VH_ALL_TYPES(RUN_R)
    std::fprintf(g_out, "{\"e\":\"summary\",\"edges\":%lu,\"replayed\":%lu,\"mismatches\":%lu}\n", (unsigned long) g_edges.size(), g_replayed, g_mismatch);
    std::fclose(g_out);
    return 0;
}
