// Conversion driver (C17): convert<V0>(v) and converting constructors between a
// vector type and its signed/unsigned counterpart (and itself), mask
// conversions, width-1 conversions between element sizes (the pairs AVEL
// defines; undefined-but-declared pairs are found by the link probe), bit_cast.
// usage: drv_conv conv <tier> <seed> <out-prefix>
#include "common/inputs.hpp"
#include "common/types.hpp"
#include "common/vh.hpp"

using namespace vh;

template<class VS, class VD>
static void conv_pair(const char* tn, const char* form) {
    typedef typename VS::scalar S;
    typedef typename VD::scalar D;
    enum { N = VS::width };
    static_assert(unsigned(VS::width) == unsigned(VD::width), "same width");
    Rng r(12345 + sizeof(S) * 8 + sizeof(D));
    std::vector<S> in = singles<S>(r, g_tier ? 4000 : 400);
    set_label(tn, "convert");
    for (std::size_t base = 0; base < in.size(); base += N) {
        std::array<S, N> a;
        for (unsigned j = 0; j < N; ++j) a[j] = in[(base + j) % in.size()];
        opaque(a);
        std::array<D, N> r1{}, r2{};
        int sg = guarded([&] {
            r1 = avel::to_array(avel::convert<VD>(VS(a))[0]);
            r2 = avel::to_array(VD(VS(a)));                    // converting constructor
        });
        for (unsigned j = 0; j < N; ++j) {
            emit(Fact("conv", kind_of<S>::value).val("a", a[j]).val("r", sg ? D(0) : r1[j]).signal(sg), tn, int(j), form);
            emit(Fact("conv", kind_of<S>::value).val("a", a[j]).val("r", sg ? D(0) : r2[j]).signal(sg), tn, int(j), "ctor");
        }
    }
}

// float vectors: identity conversion and bit_cast to/from the unsigned vector of the same shape
template<class VF, class VU>
static void float_pair(const char* tn) {
    typedef typename VF::scalar S;
    typedef typename VU::scalar U;
    enum { N = VF::width };
    Rng r(999 + sizeof(S));
    std::vector<S> in = fp_lattice<S>(1);
    set_label(tn, "convert");
    for (std::size_t base = 0; base < in.size(); base += N) {
        std::array<S, N> a;
        for (unsigned j = 0; j < N; ++j) a[j] = in[(base + j) % in.size()];
        opaque(a);
        std::array<S, N> r1{}, r3{};
        std::array<U, N> r2{};
        int sg = guarded([&] {
            r1 = avel::to_array(avel::convert<VF>(VF(a))[0]);
            r2 = avel::to_array(avel::bit_cast<VU>(VF(a)));
            r3 = avel::to_array(avel::bit_cast<VF>(avel::bit_cast<VU>(VF(a))));
        });
        for (unsigned j = 0; j < N; ++j) {
            emit(Fact("conv", 'f').val("a", a[j]).val("r", sg ? S(0) : r1[j]).signal(sg), tn, int(j), "identity");
            emit(Fact("bit_cast", 'f').val("a", a[j]).val("r", sg ? U(0) : r2[j]).signal(sg), tn, int(j), "to_u");
            emit(Fact("bit_cast", 'f').val("a", a[j]).val("r", sg ? S(0) : r3[j]).signal(sg), tn, int(j), "round_trip");
        }
    }
}

static std::string words(const bool* b, unsigned n) {
    std::string s = "[";
    for (unsigned w = 0; w * 16 < n; ++w) {
        unsigned v = 0;
        for (unsigned i = 0; i < 16 && w * 16 + i < n; ++i)
            if (b[w * 16 + i]) v |= 1u << i;
        if (w) s += ",";
        s += std::to_string(v);
    }
    return s + "]";
}

// mask conversions preserve the truth value of every lane
template<class MS, class MD, class VD>
static void mask_pair(const char* tn) {
    enum { N = MS::width };
    Rng r(777 + N);
    set_label(tn, "mask_convert");
    for (int rep = 0; rep < (N <= 8 ? (1 << N) : 300); ++rep) {
        std::uint64_t bits = N <= 8 ? std::uint64_t(rep) : r.next();
        std::array<bool, N> a;
        bool ab[N];
        for (unsigned i = 0; i < N; ++i) ab[i] = a[i] = (bits >> i) & 1u;
        opaque(a);
        for (int form = 0; form < 2; ++form) {
            int l[N] = {};
            unsigned cnt = 0;
            bool any = false, all = false, none = false, eqs = false, nes = false;
            bool tv1[N], tv0[N], lanes[N];
            int sg = guarded([&] {
                MD m = form ? MD(MS(a)) : avel::convert<MD>(MS(a))[0];
                mask_lanes(m, l);
                cnt = avel::count(m);
                any = avel::any(m);
                all = avel::all(m);
                none = avel::none(m);
                eqs = (m == m);
                nes = (m != m);
                auto tv = avel::to_array(VD(m));
                for (unsigned i = 0; i < N; ++i) {
                    typename VD::scalar one = 1, zero = 0;
                    tv1[i] = std::memcmp(&tv[i], &one, sizeof(one)) == 0;
                    tv0[i] = std::memcmp(&tv[i], &zero, sizeof(zero)) == 0;
                }
            });
            for (unsigned i = 0; i < N; ++i) lanes[i] = l[i] != 0;
            std::string s = "{\"o\":\"m_id\",\"k\":\"m\",\"n\":" + std::to_string(unsigned(N)) + ",\"a\":" + words(ab, N);
            if (!sg)
                s += ",\"lanes\":" + words(lanes, N) + ",\"tv1\":" + words(tv1, N) + ",\"tv0\":" + words(tv0, N) + ",\"count\":" + std::to_string(cnt) +
                     ",\"any\":" + std::to_string(int(any)) + ",\"all\":" + std::to_string(int(all)) + ",\"none\":" + std::to_string(int(none)) +
                     ",\"eqself\":" + std::to_string(int(eqs)) + ",\"neself\":" + std::to_string(int(nes));
            s += std::string(",\"sig\":\"") + signame(sg) + "\"}";
            emit_raw(s, tn, form ? "ctor" : "convert");
        }
    }
}

int main(int argc, char** argv) {
    if (argc < 5) return 2;
    g_tier = std::strcmp(argv[2], "thorough") == 0;
    if (!open_sink(argv[4])) return 2;
    install_handlers();
    using namespace avel;
    // same shape: identity, counterpart, masks
#define SAME(X)                                                                     \
    conv_pair<vec##X##u, vec##X##u>(#X "u", "identity");                            \
    conv_pair<vec##X##i, vec##X##i>(#X "i", "identity");                            \
    conv_pair<vec##X##u, vec##X##i>(#X "u", "to_signed");                           \
    conv_pair<vec##X##i, vec##X##u>(#X "i", "to_unsigned");                         \
    mask_pair<mask##X##u, mask##X##i, vec##X##i>("m" #X "u");                       \
    mask_pair<mask##X##i, mask##X##u, vec##X##u>("m" #X "i");                       \
    mask_pair<mask##X##u, mask##X##u, vec##X##u>("m" #X "u");
#if VH_G(8)
    SAME(1x8) VH_IF128(SAME(16x8)) VH_IF256(SAME(32x8)) VH_IF512BW(SAME(64x8))
#endif
#if VH_G(16)
    SAME(1x16) VH_IF128(SAME(8x16)) VH_IF256(SAME(16x16)) VH_IF512BW(SAME(32x16))
#endif
#if VH_G(32)
    SAME(1x32) VH_IF128(SAME(4x32)) VH_IF256(SAME(8x32)) VH_IF512(SAME(16x32))
    float_pair<vec1x32f, vec1x32u>("1x32f");
    VH_IF128(float_pair<vec4x32f, vec4x32u>("4x32f");)
    VH_IF256(float_pair<vec8x32f, vec8x32u>("8x32f");)
    VH_IF512(float_pair<vec16x32f, vec16x32u>("16x32f");)
#endif
#if VH_G(64)
    SAME(1x64) VH_IF128(SAME(2x64)) VH_IF256(SAME(4x64)) VH_IF512(SAME(8x64))
    float_pair<vec1x64f, vec1x64u>("1x64f");
    VH_IF128(float_pair<vec2x64f, vec2x64u>("2x64f");)
    VH_IF256(float_pair<vec4x64f, vec4x64u>("4x64f");)
    VH_IF512(float_pair<vec8x64f, vec8x64u>("8x64f");)
#endif
    // width-1 conversions between element sizes: every pair AVEL defines
#if VH_GROUP == 0 || VH_GROUP == 8
#define W1(S, D) conv_pair<vec1x##S, vec1x##D>("1x" #S, "to_1x" #D); mask_pair<mask1x##S, mask1x##D, vec1x##D>("m1x" #S);
    W1(8u, 16u) W1(8u, 32u) W1(8u, 64u)
    W1(8i, 16u) W1(8i, 32u) W1(8i, 64u)
    W1(16u, 8u) W1(16u, 8i) W1(16u, 32u) W1(16u, 64u)
    W1(16i, 32u) W1(16i, 64u)
    W1(32u, 8u) W1(32u, 8i) W1(32u, 16u) W1(32u, 16i) W1(32u, 64u)
    W1(32i, 64u)
    W1(64u, 8u) W1(64u, 8i) W1(64u, 16u) W1(64u, 16i) W1(64u, 32u) W1(64u, 32i)
    
#endif
    close_sink();
    return 0;
}
