// Allocator driver (C18): histories of allocate / user writes / deallocate on
// avel::Aligned_allocator<T, A>, with the system allocator observed by link-time
// interposition (-Wl,--wrap=malloc,--wrap=free,--wrap=posix_memalign,
// --wrap=aligned_alloc): no change to AVEL is needed.
// One ndjson trace: <prefix>.alloc.trace      usage: drv_alloc alloc <tier> <seed> <prefix>
#include "common/inputs.hpp"
#include "common/vh.hpp"

#include <avel/Aligned_allocator.hpp>

#include <unistd.h>
#include <vector>

using namespace vh;

// ---------------------------------------------------------------- interposition
extern "C" {
void* __real_malloc(size_t);
void __real_free(void*);
int __real_posix_memalign(void**, size_t, size_t);
void* __real_aligned_alloc(size_t, size_t);
}

struct SysEv {
    int kind;  // 0 alloc, 1 free
    std::uintptr_t p;
    std::size_t size;
};
static SysEv g_sysev[64];
static volatile int g_nsys = 0;
static volatile int g_api = 0;

// system blocks handed out while an allocator member ran and not yet freed: an
// invalid free is *recorded* but not executed, so the heap stays usable and the
// rest of the history can still be validated
static std::uintptr_t g_sysblocks[4096];
static int g_nblocks = 0;
static void block_add(void* p) {
    if (p && g_nblocks < 4096) g_sysblocks[g_nblocks++] = reinterpret_cast<std::uintptr_t>(p);
}
static bool block_remove(void* p) {
    for (int i = 0; i < g_nblocks; ++i)
        if (g_sysblocks[i] == reinterpret_cast<std::uintptr_t>(p)) {
            g_sysblocks[i] = g_sysblocks[--g_nblocks];
            return true;
        }
    return false;
}

static void note(int kind, void* p, std::size_t n) {
    if (g_api && g_nsys < 64) {
        g_sysev[g_nsys].kind = kind;
        g_sysev[g_nsys].p = reinterpret_cast<std::uintptr_t>(p);
        g_sysev[g_nsys].size = n;
        g_nsys = g_nsys + 1;
    }
}
extern "C" {
void* __wrap_malloc(size_t n) {
    void* p = __real_malloc(n);
    if (g_api) { note(0, p, n); block_add(p); }
    return p;
}
void __wrap_free(void* p) {
    if (g_api) {
        note(1, p, 0);
        if (p && !block_remove(p)) return;   // invalid free: recorded, not executed
    }
    __real_free(p);
}
int __wrap_posix_memalign(void** o, size_t a, size_t n) {
    int r = __real_posix_memalign(o, a, n);
    if (g_api) { note(0, r == 0 ? *o : nullptr, n); if (r == 0) block_add(*o); }
    return r;
}
void* __wrap_aligned_alloc(size_t a, size_t n) {
    void* p = __real_aligned_alloc(a, n);
    if (g_api) { note(0, p, n); block_add(p); }
    return p;
}
}

// ---------------------------------------------------------------- trace
static FILE* g_tr;
static std::uintptr_t g_ref;
static int g_next_id = 1;

static long rel(std::uintptr_t p) {
    if (p == 0) return 0;
    if (p < g_ref || p - g_ref >= (1ul << 30)) return (1l << 30) + long(p & 0xFFFFF);   // far outside the heap window (wild pointer)
    return long(p - g_ref);
}

static void flush_sys() {
    for (int i = 0; i < g_nsys; ++i) {
        if (g_sysev[i].kind == 0) {
            if (g_sysev[i].p)
                std::fprintf(g_tr, "{\"e\":\"sys_alloc\",\"p\":%ld,\"size\":%lu}\n", rel(g_sysev[i].p), (unsigned long) g_sysev[i].size);
        } else {
            std::fprintf(g_tr, "{\"e\":\"sys_free\",\"p\":%ld}\n", rel(g_sysev[i].p));
        }
    }
    g_nsys = 0;
}

struct Block {
    int id;
    unsigned char* p;
    std::size_t bytes;
};
static std::vector<Block> g_live;

static void fill(const Block& b) {
    for (std::size_t i = 0; i < b.bytes; ++i) b.p[i] = (unsigned char) (b.id * 37 + i * 11 + 5);
}
static unsigned long damaged() {
    unsigned long bad = 0;
    for (const Block& b : g_live)
        for (std::size_t i = 0; i < b.bytes; ++i)
            if (b.p[i] != (unsigned char) (b.id * 37 + i * 11 + 5)) ++bad;
    return bad;
}

template<class T, std::size_t A>
static int do_allocate(std::size_t n) {
    avel::Aligned_allocator<T, A> al;
    T* p = nullptr;
    g_nsys = 0;
    int sg = guarded([&] {
        g_api = 1;
        p = al.allocate(n);
        g_api = 0;
    });
    g_api = 0;
    flush_sys();
    int id = g_next_id++;
    std::fprintf(g_tr, "{\"e\":\"allocate\",\"id\":%d,\"p\":%ld,\"bytes\":%lu,\"A\":%lu,\"n\":%lu,\"tsize\":%lu,\"sig\":\"%s\"}\n", id,
                 sg ? 0 : rel(reinterpret_cast<std::uintptr_t>(p)), (unsigned long) (n * sizeof(T)), (unsigned long) A, (unsigned long) n,
                 (unsigned long) sizeof(T), signame(sg));
    if (sg || (!p && n)) return -1;
    Block b = {id, reinterpret_cast<unsigned char*>(p), n * sizeof(T)};
    g_live.push_back(b);
    fill(b);   // the user writes every byte of the block
    return id;
}

template<class T, std::size_t A>
static void do_deallocate(std::size_t idx) {
    Block b = g_live[idx];
    g_live.erase(g_live.begin() + long(idx));
    avel::Aligned_allocator<T, A> al;
    g_nsys = 0;
    int sg = guarded([&] {
        g_api = 1;
        al.deallocate(reinterpret_cast<T*>(b.p), b.bytes / sizeof(T));
        g_api = 0;
    });
    g_api = 0;
    flush_sys();
    std::fprintf(g_tr, "{\"e\":\"deallocate\",\"id\":%d,\"sig\":\"%s\"}\n", b.id, signame(sg));
}

static void check_event() { std::fprintf(g_tr, "{\"e\":\"check\",\"bad\":%lu}\n", damaged()); }

template<class T, std::size_t A>
static void history(Rng& r, unsigned steps) {
    std::fprintf(g_tr, "{\"e\":\"reset\",\"tsize\":%lu,\"A\":%lu}\n", (unsigned long) sizeof(T), (unsigned long) A);
    set_label("alloc", "allocate");
    const std::size_t ns[] = {0, 1, 2, 3, 5, 7, 8, 9, 13, 16, 17, 31, 32, 33, 64, 100, 257};
    for (unsigned s = 0; s < steps; ++s) {
        bool alloc = g_live.size() < 2 || (g_live.size() < 12 && (r.next() % 5) < 3);
        if (alloc) {
            std::size_t n = ns[r.next() % (sizeof(ns) / sizeof(ns[0]))];
            do_allocate<T, A>(n);
        } else {
            do_deallocate<T, A>(std::size_t(r.next() % g_live.size()));
        }
        check_event();
    }
    while (!g_live.empty()) {
        do_deallocate<T, A>(g_live.size() - 1);
        check_event();
    }
    std::fprintf(g_tr, "{\"e\":\"end\"}\n");
}

// TLC -> code: every transition of the abstract history machine (spec/Gen_Alloc.tla) as one mini-history:
//   "<pre sizes...> | a <size index>"  or  "<pre sizes...> | d <position>"
// the allocator is brought into the pre-state, the operation is performed, everything is released.
static std::vector<std::string> g_script;
template<class T, std::size_t A>
static void scripted() {
    const std::size_t ns[] = {0, 1, 3, 8, 17, 64};
    set_label("alloc", "allocgen");
    for (const std::string& ln : g_script) {
        std::fprintf(g_tr, "{\"e\":\"reset\",\"tsize\":%lu,\"A\":%lu}\n", (unsigned long) sizeof(T), (unsigned long) A);
        std::vector<int> tok;
        char kind = 0;
        int arg = 0;
        {
            const char* c = ln.c_str();
            bool after = false;
            while (*c) {
                if (*c == '|') { after = true; ++c; continue; }
                if (*c == ' ') { ++c; continue; }
                if (after && (*c == 'a' || *c == 'd')) { kind = *c; ++c; continue; }
                int v = std::atoi(c);
                while (*c && *c != ' ') ++c;
                if (after) arg = v; else tok.push_back(v);
            }
        }
        for (int sidx : tok) { do_allocate<T, A>(ns[sidx]); check_event(); }
        if (kind == 'a') do_allocate<T, A>(ns[arg]);
        else if (kind == 'd' && std::size_t(arg) >= 1 && std::size_t(arg) <= g_live.size()) do_deallocate<T, A>(std::size_t(arg) - 1);
        check_event();
        while (!g_live.empty()) {
            do_deallocate<T, A>(g_live.size() - 1);
            check_event();
        }
        std::fprintf(g_tr, "{\"e\":\"end\"}\n");
    }
}

// One request of more than 4 GiB (virtual memory only: first and last page are touched).  Addresses and sizes do not
// fit TLC's 32-bit integers, so the events carry sizes split into 2^20 units and offsets relative to the system block.
template<class T, std::size_t A>
static void big_request() {
    set_label("alloc", "allocate_big");
    const std::size_t n = ((std::size_t(1) << 32) + 5000) / sizeof(T) + 3;
    const std::size_t bytes = n * sizeof(T);
    avel::Aligned_allocator<T, A> al;
    T* p = nullptr;
    g_nsys = 0;
    int sg = guarded([&] {
        g_api = 1;
        p = al.allocate(n);
        g_api = 0;
    });
    g_api = 0;
    std::uintptr_t sysp = 0;
    std::size_t syssize = 0;
    int nalloc = 0, nfree = 0;
    for (int i = 0; i < g_nsys; ++i) {
        if (g_sysev[i].kind == 0 && g_sysev[i].p) { sysp = g_sysev[i].p; syssize = g_sysev[i].size; ++nalloc; }
        if (g_sysev[i].kind == 1) ++nfree;
    }
    g_nsys = 0;
    if (sg == 0 && !p) {       // the system refused the request: nothing to check (not a property of AVEL)
        std::fprintf(g_tr, "{\"e\":\"big_refused\"}\n");
        return;
    }
    const std::uintptr_t up = reinterpret_cast<std::uintptr_t>(p);
    std::fprintf(g_tr, "{\"e\":\"allocate_big\",\"nsys\":%d,\"nfree\":%d,\"off\":%ld,\"pmod\":%lu,\"A\":%lu,\"bytes_hi\":%lu,\"bytes_lo\":%lu,\"size_hi\":%lu,\"size_lo\":%lu,\"sig\":\"%s\"}\n",
                 nalloc, nfree, (sg || up < sysp || up - sysp > (1ul << 30)) ? -1l : long(up - sysp), (unsigned long) (up % A), (unsigned long) A,
                 (unsigned long) (bytes >> 20), (unsigned long) (bytes & 0xFFFFF), (unsigned long) (syssize >> 20), (unsigned long) (syssize & 0xFFFFF), signame(sg));
    if (sg) return;
    unsigned char* c = reinterpret_cast<unsigned char*>(p);
    bool okfill = true;
    if (syssize >= bytes) {     // only write where the system block really extends
        c[0] = 0x5A; c[4095] = 0x5B; c[bytes - 1] = 0x5C; c[bytes - 4096] = 0x5D;
        okfill = c[0] == 0x5A && c[4095] == 0x5B && c[bytes - 1] == 0x5C && c[bytes - 4096] == 0x5D;
    }
    g_nsys = 0;
    sg = guarded([&] {
        g_api = 1;
        al.deallocate(p, n);
        g_api = 0;
    });
    g_api = 0;
    int frees = 0, freed_base = 0;
    for (int i = 0; i < g_nsys; ++i)
        if (g_sysev[i].kind == 1) { ++frees; if (g_sysev[i].p == sysp) freed_base = 1; }
    g_nsys = 0;
    std::fprintf(g_tr, "{\"e\":\"deallocate_big\",\"frees\":%d,\"freed_base\":%d,\"fill_ok\":%d,\"sig\":\"%s\"}\n", frees, freed_base, int(okfill), signame(sg));
}

struct S3 { char b[3]; };
struct S16 { double a, b; };
struct S24 { char b[24]; };
struct alignas(64) S64 { char b[64]; };

int main(int argc, char** argv) {
    if (argc < 5) return 2;
    g_tier = std::strcmp(argv[2], "thorough") == 0;
    std::uint64_t seed = std::strtoull(argv[3], nullptr, 10);
    std::string prefix = argv[4];
    if (!open_sink(prefix)) return 2;
    const bool gen = std::strcmp(argv[1], "allocgen") == 0;
    if (gen) {
        const char* sp = std::getenv("VH_ALLOC_SCRIPT");
        FILE* sf = sp ? std::fopen(sp, "r") : nullptr;
        if (!sf) return 2;
        char line[256];
        while (std::fgets(line, sizeof(line), sf)) {
            std::string l(line);
            while (!l.empty() && (l.back() == '\n' || l.back() == ' ')) l.pop_back();
            if (!l.empty()) g_script.push_back(l);
        }
        std::fclose(sf);
    }
    g_tr = std::fopen((prefix + (gen ? ".allocgen.trace" : ".alloc.trace")).c_str(), "w");
    if (!g_tr) return 2;
    static char buf[1 << 20];
    std::setvbuf(g_tr, buf, _IOFBF, sizeof(buf));
    g_live.reserve(64);
    void* probe = __real_malloc(16);
    g_ref = (reinterpret_cast<std::uintptr_t>(probe) & ~std::uintptr_t(0xFFFFF)) - (1ul << 24);
    __real_free(probe);
    install_handlers();
    Rng r(seed * 7919 + 13);
    const unsigned steps = g_tier ? 4000 : 300;
#define VH_ALLOC_INST(T_, A_) if (gen) scripted<T_, A_>(); else { history<T_, A_>(r, steps); if (sizeof(T_) * A_ % 3 != 1) big_request<T_, A_>(); }
    VH_ALLOC_INST(char, 1)
    VH_ALLOC_INST(char, 16)
    VH_ALLOC_INST(char, 32)
    VH_ALLOC_INST(char, 64)
    VH_ALLOC_INST(char, 4096)
    VH_ALLOC_INST(S3, 1)
    VH_ALLOC_INST(S3, 32)
    VH_ALLOC_INST(S3, 128)
    VH_ALLOC_INST(short, 2)
    VH_ALLOC_INST(short, 64)
    VH_ALLOC_INST(int, 4)
    VH_ALLOC_INST(int, 32)
    VH_ALLOC_INST(int, 256)
    VH_ALLOC_INST(double, 8)
    VH_ALLOC_INST(double, 16)
    VH_ALLOC_INST(double, 64)
    VH_ALLOC_INST(S16, 16)
    VH_ALLOC_INST(S16, 64)
    VH_ALLOC_INST(S24, 32)
    VH_ALLOC_INST(S24, 1024)
    VH_ALLOC_INST(S64, 64)
    VH_ALLOC_INST(S64, 128)
    std::fclose(g_tr);
    close_sink();
    return 0;
}
