// Floating-point lane driver.  Families:
//   farith (C10)  fcmp (C02)  fround (C11)  fmanip (C12)  fclass (C13)  fselect (C07)
// Vector types of every width and the scalar overloads; every family runs
// under each of the four rounding modes where the mode can matter.
// usage: drv_fp <family> <tier> <seed> <out-prefix>
#include "common/inputs.hpp"
#include "common/types.hpp"
#include "common/vh.hpp"

#include <cmath>
#include <climits>

using namespace vh;

static const char* g_rm = "RN";
static int g_x87rc = -1;          // >= 0: the x87 rounding control was deliberately left different from MXCSR (family fsplit)

template<class V>
struct FDrv {
    typedef typename V::scalar S;
    typedef typename V::mask M;
    enum { N = V::width };
    typedef std::array<S, N> A;
    typedef typename std::conditional<sizeof(S) == 4, std::int32_t, std::int64_t>::type IS;
    typedef avel::Vector<IS, N> IV;
    typedef std::array<IS, N> IA;
    typedef std::vector<std::pair<S, S>> Pairs;
    const char* tn;
    Pairs P;
    std::vector<S> U1;

    FDrv(const char* name, std::uint64_t seed) : tn(name) {
        Rng r(seed * 91 + sizeof(S));
        std::vector<S> l = fp_lattice<S>(g_tier ? 1 : 0);
        for (S a : l)
            for (S b : l) P.push_back(std::make_pair(a, b));
        for (int i = 0; i < (g_tier ? 30000 : 2500); ++i) {
            S a = random_float<S>(r), b = random_float<S>(r);
            P.push_back(std::make_pair(a, b));
            if (i % 3 == 0) {   // near-cancellation: same exponent, close significands, opposite sign
                typename fbits<S>::U ab = to_bits(a);
                P.push_back(std::make_pair(a, from_bits<S>((ab ^ (typename fbits<S>::U(1) << (sizeof(S) * 8 - 1))) + (r.next() % 5) - 2)));
            }
        }
        U1 = fp_lattice<S>(g_tier ? 2 : 1);
        for (int i = 0; i < (g_tier ? 60000 : 4000); ++i) U1.push_back(random_float<S>(r));
    }

    template<class Fn>
    void for_pair_batches(Fn fn) {
        const std::size_t n = P.size();
        for (int pass = 0; pass < (N > 1 ? 2 : 1); ++pass) {
            const std::size_t off = pass ? (N / 2 + 1) : 0;
            for (std::size_t base = 0; base < n; base += N) {
                A a, b;
                for (unsigned j = 0; j < N; ++j) {
                    const std::pair<S, S>& p = P[(base + j + off) % n];
                    a[j] = p.first;
                    b[j] = p.second;
                }
                opaque(a);
                opaque(b);
                fn(a, b);
            }
        }
        // third pass: every lane holds the same operands.  Emulations that branch on a property of the whole vector
        // ("all lanes small": one cheap instruction instead of the general path) are only reached this way.
        if (N > 1) {
            const std::size_t step = n > 70000 ? n / 70000 + 1 : 1;
            for (std::size_t i = 0; i < n; i += step) {
                A a, b;
                for (unsigned j = 0; j < N; ++j) {
                    a[j] = P[i].first;
                    b[j] = P[i].second;
                }
                opaque(a);
                opaque(b);
                fn(a, b);
            }
            // fourth pass (vectors wider than 128 bits): uniform inside each 128-bit block, different between blocks -
            // emulations that work block-wise and test a whole block at once
            if (N * sizeof(S) > 16) {
                const unsigned lpb = 16 / sizeof(S);
                for (std::size_t i = 0; i + 1 < n; i += 2 * step) {
                    A a, b;
                    for (unsigned j = 0; j < N; ++j) {
                        const std::pair<S, S>& p = P[(i + (j / lpb)) % n];
                        a[j] = p.first;
                        b[j] = p.second;
                    }
                    opaque(a);
                    opaque(b);
                    fn(a, b);
                }
            }
        }
    }
    template<class Fn>
    void for_single_batches(Fn fn) {
        const std::size_t n = U1.size();
        for (int pass = 0; pass < (N > 1 ? 2 : 1); ++pass) {
            const std::size_t off = pass ? (N / 2 + 1) : 0;
            for (std::size_t base = 0; base < n; base += N) {
                A a;
                for (unsigned j = 0; j < N; ++j) a[j] = U1[(base + j + off) % n];
                opaque(a);
                fn(a);
            }
        }
        if (N > 1) {    // uniform vectors (see for_pair_batches)
            const std::size_t step = n > 70000 ? n / 70000 + 1 : 1;
            for (std::size_t i = 0; i < n; i += step) {
                A a;
                for (unsigned j = 0; j < N; ++j) a[j] = U1[i];
                opaque(a);
                fn(a);
            }
        }
    }

    template<class F>
    void bin(const char* op, const char* form, bool moded, F f) {
        set_label(tn, op);
        for_pair_batches([&](const A& a, const A& b) {
            A r{};
            int sg = guarded([&] { r = avel::to_array(f(V(a), V(b))); });
            for (unsigned j = 0; j < N; ++j) {
                Fact x(op, 'f');
                if (moded) x.mode(g_rm);
                emit(x.val("a", a[j]).val("b", b[j]).val("r", sg ? S(0) : r[j]).signal(sg), tn, int(j), form);
            }
        });
    }
    template<class F>
    void un(const char* op, const char* form, bool moded, F f) {
        set_label(tn, op);
        for_single_batches([&](const A& a) {
            A r{};
            int sg = guarded([&] { r = avel::to_array(f(V(a))); });
            for (unsigned j = 0; j < N; ++j) {
                Fact x(op, 'f');
                if (moded) x.mode(g_rm);
                if (g_x87rc >= 0) x.num("x87", g_x87rc);
                emit(x.val("a", a[j]).val("r", sg ? S(0) : r[j]).signal(sg), tn, int(j), form);
            }
        });
    }
    template<class F>
    void pred2(const char* op, F f) {
        set_label(tn, op);
        for_pair_batches([&](const A& a, const A& b) {
            int r[N] = {};
            int sg = guarded([&] { mask_lanes(f(V(a), V(b)), r); });
            for (unsigned j = 0; j < N; ++j)
                emit(Fact(op, 'f').val("a", a[j]).val("b", b[j]).num("r", sg ? 0 : r[j]).signal(sg), tn, int(j), "op");
        });
    }
    template<class F>
    void pred1(const char* op, F f) {
        set_label(tn, op);
        for_single_batches([&](const A& a) {
            int r[N] = {};
            int sg = guarded([&] { mask_lanes(f(V(a)), r); });
            for (unsigned j = 0; j < N; ++j)
                emit(Fact(op, 'f').val("a", a[j]).num("r", sg ? 0 : r[j]).signal(sg), tn, int(j), "op");
        });
    }

    // ----------------------------------------------------------------- C10
    void farith() {
        bin("add", "op", true, [](V a, V b) { return a + b; });
        bin("sub", "op", true, [](V a, V b) { return a - b; });
        bin("mul", "op", true, [](V a, V b) { return a * b; });
        bin("fdiv", "op", true, [](V a, V b) { return a / b; });
        bin("add", "eq", true, [](V a, V b) { a += b; return a; });
        bin("sub", "eq", true, [](V a, V b) { a -= b; return a; });
        bin("mul", "eq", true, [](V a, V b) { a *= b; return a; });
        bin("fdiv", "eq", true, [](V a, V b) { a /= b; return a; });
        un("sqrt", "op", true, [](V a) { return avel::sqrt(a); });
        un("inc", "pre", true, [](V a) { ++a; return a; });
        un("inc", "post", true, [](V a) { a++; return a; });
        un("dec", "pre", true, [](V a) { --a; return a; });
        un("dec", "post", true, [](V a) { a--; return a; });
        un("id", "inc_post_ret", false, [](V a) { return a++; });
        un("id", "dec_post_ret", false, [](V a) { return a--; });
        un("neg", "op", false, [](V a) { return -a; });
        un("pos", "op", false, [](V a) { return +a; });
    }
    // ----------------------------------------------------------------- C02
    void fcmp() {
        pred2("eq", [](V a, V b) { return a == b; });
        pred2("ne", [](V a, V b) { return a != b; });
        pred2("lt", [](V a, V b) { return a < b; });
        pred2("le", [](V a, V b) { return a <= b; });
        pred2("gt", [](V a, V b) { return a > b; });
        pred2("ge", [](V a, V b) { return a >= b; });
    }
    // ----------------------------------------------------------------- C11
    void fround() {
        un("ceil", "op", true, [](V a) { return avel::ceil(a); });
        un("floor", "op", true, [](V a) { return avel::floor(a); });
        un("trunc", "op", true, [](V a) { return avel::trunc(a); });
        un("round", "op", true, [](V a) { return avel::round(a); });
        un("nearbyint", "op", true, [](V a) { return avel::nearbyint(a); });
        un("rint", "op", true, [](V a) { return avel::rint(a); });
    }
    // nearbyint / rint with the two rounding controls out of step (main sets them): MXCSR is the current mode
    void fsplit() {
        un("nearbyint", "split", true, [](V a) { return avel::nearbyint(a); });
        un("rint", "split", true, [](V a) { return avel::rint(a); });
    }
    // ----------------------------------------------------------------- C12
    void fmanip() {
        set_label(tn, "frexp");
        for_single_batches([&](const A& a) {
            A r{};
            IA ex{};
            int sg = guarded([&] {
                IV e;
                r = avel::to_array(avel::frexp(V(a), &e));
                ex = avel::to_array(e);
            });
            for (unsigned j = 0; j < N; ++j)
                emit(Fact("frexp", 'f').val("a", a[j]).val("ex", sg ? IS(0) : ex[j]).val("r", sg ? S(0) : r[j]).signal(sg), tn, int(j), "op");
        });
        // ldexp / scalbn: every value class against a sweep of exponents
        std::vector<S> vals = fp_lattice<S>(0);
        std::vector<long long> exps;
        const int range = sizeof(S) == 4 ? 149 + 128 + 60 : 1074 + 1024 + 60;
        const int step = g_tier ? 1 : (sizeof(S) == 4 ? 7 : 53);
        for (int e = -range; e <= range; e += step) exps.push_back(e);
        const long long extra[] = {0, 1, -1, 2, -2, 23, 24, 25, -23, -24, -25, 52, 53, 54, -52, -53, -54, 126, 127, 128, -126, -127, -149, -150, -151,
                                   1022, 1023, 1024, -1022, -1023, -1074, -1075, -1076, INT_MAX, INT_MIN, INT_MAX - 1, INT_MIN + 1, 65536, -65536};
        for (long long e : extra) exps.push_back(e);
        for (int which = 0; which < 2; ++which) {
            const char* form = which ? "scalbn" : "ldexp";
            set_label(tn, form);
            for (std::size_t ei = 0; ei < exps.size(); ei += N) {
                for (std::size_t base = 0; base < vals.size(); base += N) {
                    A a, r{};
                    IA ex;
                    for (unsigned j = 0; j < N; ++j) {
                        a[j] = vals[(base + j) % vals.size()];
                        ex[j] = IS(exps[(ei + j) % exps.size()]);
                    }
                    opaque(a);
                    opaque(ex);
                    int sg = guarded([&] { r = avel::to_array(which ? avel::scalbn(V(a), IV(ex)) : avel::ldexp(V(a), IV(ex))); });
                    for (unsigned j = 0; j < N; ++j)
                        emit(Fact("ldexp", 'f').mode(g_rm).val("a", a[j]).val("ex", ex[j]).val("r", sg ? S(0) : r[j]).signal(sg), tn, int(j), form);
                }
            }
        }
        // rounding-boundary lattice of the gradual-underflow range: the result keeps P - d bits; the d discarded bits are
        // exactly / just below / just above one half (and zero, one, all ones), the last kept bit is even or odd; the
        // operand sits in three different binades so that emulations which scale in several steps round once, not twice
        {
            typedef typename fbits<S>::U UB;
            const int P = sizeof(S) == 4 ? 24 : 53, EMIN = sizeof(S) == 4 ? -126 : -1022, BIAS = sizeof(S) == 4 ? 127 : 1023;
            const int shifts[] = {0, sizeof(S) == 4 ? 120 : 1000, sizeof(S) == 4 ? -120 : -1000};
            std::vector<std::pair<S, IS>> cases;
            Rng lr(991 + sizeof(S));
            for (int d = 1; d < P; ++d) {
                const UB lowmask = (UB(1) << d) - 1, half = UB(1) << (d - 1);
                const UB pats[] = {0, 1, UB(half - 1), half, UB(half + 1), lowmask};
                for (UB pat : pats)
                    for (int lsb = 0; lsb < 2; ++lsb)
                        for (int sgn = 0; sgn < 2; ++sgn)
                            for (int sh : shifts) {
                                UB frac = (UB(lr.next()) << (d + 1)) | (UB(lsb) << d) | (pat & lowmask);
                                frac &= (UB(1) << (P - 1)) - 1;
                                UB bits = (UB(sgn) << (sizeof(S) * 8 - 1)) | (UB(BIAS + sh) << (P - 1)) | frac;
                                cases.push_back(std::make_pair(from_bits<S>(bits), IS(EMIN - d - sh)));
                            }
            }
            for (int which = 0; which < 2; ++which) {
                const char* form = which ? "scalbn" : "ldexp";
                set_label(tn, form);
                for (int pass = 0; pass < (N > 1 ? 2 : 1); ++pass)
                    for (std::size_t base = 0; base < cases.size(); base += (pass ? 1 : N)) {
                        A a, r{};
                        IA ex;
                        for (unsigned j = 0; j < N; ++j) {
                            const std::pair<S, IS>& c = cases[pass ? base : (base + j) % cases.size()];   // pass 1: uniform vector
                            a[j] = c.first;
                            ex[j] = c.second;
                        }
                        opaque(a);
                        opaque(ex);
                        int sg = guarded([&] { r = avel::to_array(which ? avel::scalbn(V(a), IV(ex)) : avel::ldexp(V(a), IV(ex))); });
                        for (unsigned j = 0; j < (pass ? 1u : unsigned(N)); ++j)
                            emit(Fact("ldexp", 'f').mode(g_rm).val("a", a[j]).val("ex", ex[j]).val("r", sg ? S(0) : r[j]).signal(sg), tn, int(j), form);
                    }
            }
        }
        set_label(tn, "ilogb");
        for_single_batches([&](const A& a) {
            IA r{};
            int sg = guarded([&] { r = avel::to_array(avel::ilogb(V(a))); });
            for (unsigned j = 0; j < N; ++j)
                emit(Fact("ilogb", 'f').val("a", a[j]).val("r", sg ? IS(0) : r[j]).val("c0", IS(FP_ILOGB0)).val("cnan", IS(FP_ILOGBNAN)).val("cinf", IS(INT_MAX)).signal(sg),
                     tn, int(j), "op");
        });
        un("logb", "op", false, [](V a) { return avel::logb(a); });
        un("frac", "op", false, [](V a) { return avel::frac(a); });
        bin("fmax", "op", false, [](V a, V b) { return avel::fmax(a, b); });
        bin("fmin", "op", false, [](V a, V b) { return avel::fmin(a, b); });
        bin("fdim", "op", true, [](V a, V b) { return avel::fdim(a, b); });
    }
    // ----------------------------------------------------------------- C13
    static const char* class_name(long c) {
        if (c == FP_ZERO) return "zero";
        if (c == FP_SUBNORMAL) return "subnormal";
        if (c == FP_NORMAL) return "normal";
        if (c == FP_INFINITE) return "inf";
        if (c == FP_NAN) return "nan";
        return "other";
    }
    void fclass() {
        set_label(tn, "fpclassify");
        for_single_batches([&](const A& a) {
            IA r{};
            int sg = guarded([&] { r = avel::to_array(avel::fpclassify(V(a))); });
            for (unsigned j = 0; j < N; ++j) {
                unsigned char ab[sizeof(S)];
                std::memcpy(ab, &a[j], sizeof(S));
                std::string s = "{\"o\":\"fpclassify\",\"k\":\"f\",\"a\":[";
                for (unsigned i = 0; i < sizeof(S); ++i) s += (i ? "," : "") + std::to_string(unsigned(ab[i]));
                s += std::string("],\"r\":\"") + (sg ? "none" : class_name(long(r[j]))) + "\",\"sig\":\"" + signame(sg) + "\"}";
                emit_raw(s, tn, "op");
            }
        });
        pred1("isnan", [](V a) { return avel::isnan(a); });
        pred1("isinf", [](V a) { return avel::isinf(a); });
        pred1("isfinite", [](V a) { return avel::isfinite(a); });
        pred1("isnormal", [](V a) { return avel::isnormal(a); });
        pred1("signbit", [](V a) { return avel::signbit(a); });
        pred2("isgreater", [](V a, V b) { return avel::isgreater(a, b); });
        pred2("isgreaterequal", [](V a, V b) { return avel::isgreaterequal(a, b); });
        pred2("isless", [](V a, V b) { return avel::isless(a, b); });
        pred2("islessequal", [](V a, V b) { return avel::islessequal(a, b); });
        pred2("islessgreater", [](V a, V b) { return avel::islessgreater(a, b); });
        pred2("isunordered", [](V a, V b) { return avel::isunordered(a, b); });
    }
    // C11, all operations: the flush-to-zero / denormals-are-zero bits and the rounding mode the caller set must
    // survive every call.  The other families run with FTZ = DAZ = 0, where an operation that "restores" the control
    // word without those bits goes unnoticed; here every operation is called with them set (results are not
    // recorded: the lane semantics assume FTZ = DAZ = 0) and only the environment facts are emitted.
    void fenv() {
        std::vector<S> vals = fp_lattice<S>(0);
        for (unsigned preset = 0; preset < 4; ++preset) {      // 0: as found (the verdict on environment facts is given here)
            const unsigned keep = _mm_getcsr();
            _mm_setcsr(keep | ((preset & 1) ? 0x8000u : 0u) | ((preset & 2) ? 0x0040u : 0u));
            const std::string tag = std::string("@ftz") + ((preset & 1) ? "1" : "0") + "daz" + ((preset & 2) ? "1" : "0");
            for (std::size_t base = 0; base < vals.size(); base += N) {
                A a, b;
                IA e;
                for (unsigned j = 0; j < N; ++j) {
                    a[j] = vals[(base + j) % vals.size()];
                    b[j] = vals[(base * 7 + j * 3 + 1) % vals.size()];
                    e[j] = IS(int(j * 37 + base) % 300 - 150);
                }
                opaque(a);
                opaque(b);
                opaque(e);
                V x(a), y(b), r = x;
                IV ie(e), ir = ie;
                M m = x < y;
#define ENVOP(name, expr) { set_label(tn, (std::string(name) + tag).c_str()); guarded([&] { expr; }); opaque(r); opaque(ir); opaque(m); }
                ENVOP("add", r = x + y) ENVOP("sub", r = x - y) ENVOP("mul", r = x * y) ENVOP("fdiv", r = x / y) ENVOP("sqrt", r = avel::sqrt(x))
                ENVOP("neg", r = -x) ENVOP("inc", r = x; ++r) ENVOP("dec", r = x; --r)
                ENVOP("ceil", r = avel::ceil(x)) ENVOP("floor", r = avel::floor(x)) ENVOP("trunc", r = avel::trunc(x)) ENVOP("round", r = avel::round(x))
                ENVOP("nearbyint", r = avel::nearbyint(x)) ENVOP("rint", r = avel::rint(x))
                ENVOP("frexp", r = avel::frexp(x, &ir)) ENVOP("ldexp", r = avel::ldexp(x, ie)) ENVOP("scalbn", r = avel::scalbn(x, ie))
                ENVOP("ilogb", ir = avel::ilogb(x)) ENVOP("logb", r = avel::logb(x)) ENVOP("frac", r = avel::frac(x))
                ENVOP("fmax", r = avel::fmax(x, y)) ENVOP("fmin", r = avel::fmin(x, y)) ENVOP("fdim", r = avel::fdim(x, y)) ENVOP("fmod", r = avel::fmod(x, y))
                ENVOP("min", r = avel::min(x, y)) ENVOP("max", r = avel::max(x, y)) ENVOP("clamp", r = avel::clamp(x, avel::min(x, y), avel::max(x, y)))
                ENVOP("abs", r = avel::abs(x)) ENVOP("neg_abs", r = avel::neg_abs(x)) ENVOP("copysign", r = avel::copysign(x, y))
                ENVOP("blend", r = avel::blend(m, x, y)) ENVOP("keep", r = avel::keep(m, x)) ENVOP("negate", r = avel::negate(m, x))
                ENVOP("fpclassify", ir = avel::fpclassify(x)) ENVOP("isnan", m = avel::isnan(x)) ENVOP("isinf", m = avel::isinf(x))
                ENVOP("isfinite", m = avel::isfinite(x)) ENVOP("isnormal", m = avel::isnormal(x)) ENVOP("signbit", m = avel::signbit(x))
                ENVOP("isgreater", m = avel::isgreater(x, y)) ENVOP("isless", m = avel::isless(x, y)) ENVOP("islessgreater", m = avel::islessgreater(x, y))
                ENVOP("isunordered", m = avel::isunordered(x, y)) ENVOP("eq", m = x == y) ENVOP("ne", m = x != y) ENVOP("lt", m = x < y) ENVOP("ge", m = x >= y)
                ENVOP("b2v", r = V(m)) ENVOP("nz", m = M(x)) ENVOP("count", ir = IV(IS(avel::count(x))))
#undef ENVOP
            }
            _mm_setcsr(keep);
        }
    }
    // C03: mask(vector) for floats (compares unequal to zero) and Vector(mask) (1.0 / 0.0)
    void fmask() {
        pred1("nz", [](V a) { return M(a); });
        unsigned phase = 0;
        set_label(tn, "b2v");
        for_single_batches([&](const A&) {
            std::array<bool, N> mb;
            for (unsigned j = 0; j < N; ++j) mb[j] = (((j * 5 + phase) >> (phase % 4)) & 1) != 0;
            ++phase;
            if (phase > 64) return;
            A rv{};
            int sg = guarded([&] { rv = avel::to_array(V(M(mb))); });
            for (unsigned j = 0; j < N; ++j)
                emit(Fact("b2v", 'f').num("m", mb[j]).val("r", sg ? S(0) : rv[j]).signal(sg), tn, int(j), "op");
        });
    }

    //--------------------------------------------------------------------
    // Exhaustive sweep of all 2^32 binary32 patterns (thorough tier): AVEL against
    // the reference the property names (<cmath> under the current rounding mode).
    // Every input on which they differ (bit-wise, NaN = NaN) becomes a fact for TLC;
    // the comparison itself decides nothing.
    //--------------------------------------------------------------------
    static bool same_float(S a, S b) {
        if (a != a && b != b) return true;
        return std::memcmp(&a, &b, sizeof(S)) == 0;
    }
    template<class F, class R>
    void fsweep_un(const char* op, bool moded, F f, R ref) {
        set_label(tn, op);
        unsigned long diffs = 0;
        const std::uint64_t BLOCK = 1ull << 20;
        static std::vector<S> out(BLOCK);
        for (std::uint64_t base = 0; base < (1ull << 32); base += BLOCK) {
            int sg = guarded([&] {
                for (std::uint64_t x = base; x < base + BLOCK; x += N) {
                    A a;
                    for (unsigned j = 0; j < N; ++j) a[j] = from_bits<S>(typename fbits<S>::U(x + j));
                    opaque(a);
                    auto rv = avel::to_array(f(V(a)));
                    std::memcpy(&out[x - base], &rv, sizeof(rv));
                }
            });
            for (std::uint64_t x = base; x < base + BLOCK; ++x) {
                S a = from_bits<S>(typename fbits<S>::U(x));
                volatile S av = a;
                S rr = S(ref(S(av)));
                    // a zero computed from a non-zero input may carry either sign (the specification's reading):
                    // such differences from libm are not forwarded - they would all be accepted
                if (!sg && out[x - base] == S(0) && rr == S(0) && a != S(0)) continue;
                if (sg || !same_float(out[x - base], rr)) {
                    if (++diffs <= 200000) {
                        Fact fc(op, 'f');
                        if (moded) fc.mode(g_rm);
                        emit(fc.val("a", a).val("r", sg ? S(0) : out[x - base]).signal(sg), tn, int(x % N), "sweep");
                    }
                }
            }
        }
        std::fprintf(stderr, "vh-sweep: %s %s %s inputs=4294967296 disagreements=%lu\n", tn, op, g_rm, diffs);
    }
    template<class F, class R>
    void fsweep_pred(const char* op, F f, R ref) {
        set_label(tn, op);
        unsigned long diffs = 0;
        const std::uint64_t BLOCK = 1ull << 20;
        static std::vector<unsigned char> out(BLOCK);
        for (std::uint64_t base = 0; base < (1ull << 32); base += BLOCK) {
            int sg = guarded([&] {
                for (std::uint64_t x = base; x < base + BLOCK; x += N) {
                    A a;
                    for (unsigned j = 0; j < N; ++j) a[j] = from_bits<S>(typename fbits<S>::U(x + j));
                    opaque(a);
                    int r[N];
                    mask_lanes(f(V(a)), r);
                    for (unsigned j = 0; j < N; ++j) out[x - base + j] = (unsigned char) r[j];
                }
            });
            for (std::uint64_t x = base; x < base + BLOCK; ++x) {
                S a = from_bits<S>(typename fbits<S>::U(x));
                if (sg || (out[x - base] != 0) != bool(ref(a))) {
                    if (++diffs <= 200000)
                        emit(Fact(op, 'f').val("a", a).num("r", sg ? 0 : out[x - base]).signal(sg), tn, int(x % N), "sweep");
                }
            }
        }
        std::fprintf(stderr, "vh-sweep: %s %s inputs=4294967296 disagreements=%lu\n", tn, op, diffs);
    }
    template<class VV = V>
    typename std::enable_if<sizeof(typename VV::scalar) == 4>::type fsweep(bool first_mode) {
        fsweep_un("ceil", true, [](V a) { return avel::ceil(a); }, [](S x) { return std::ceil(x); });
        fsweep_un("floor", true, [](V a) { return avel::floor(a); }, [](S x) { return std::floor(x); });
        fsweep_un("trunc", true, [](V a) { return avel::trunc(a); }, [](S x) { return std::trunc(x); });
        fsweep_un("round", true, [](V a) { return avel::round(a); }, [](S x) { return std::round(x); });
        fsweep_un("nearbyint", true, [](V a) { return avel::nearbyint(a); }, [](S x) { return std::nearbyint(x); });
        fsweep_un("rint", true, [](V a) { return avel::rint(a); }, [](S x) { return std::rint(x); });
        fsweep_un("sqrt", true, [](V a) { return avel::sqrt(a); }, [](S x) { return std::sqrt(x); });
        if (!first_mode) return;      // the remaining functions do not depend on the rounding mode
        fsweep_un("logb", false, [](V a) { return avel::logb(a); }, [](S x) { return std::logb(x); });
        fsweep_un("frac", false, [](V a) { return avel::frac(a); }, [](S x) { return x - std::trunc(x); });
        fsweep_un("abs", false, [](V a) { return avel::abs(a); }, [](S x) { return std::fabs(x); });
        fsweep_un("neg_abs", false, [](V a) { return avel::neg_abs(a); }, [](S x) { return -std::fabs(x); });
        fsweep_un("neg", false, [](V a) { return -a; }, [](S x) { return -x; });
        fsweep_pred("isnan", [](V a) { return avel::isnan(a); }, [](S x) { return std::isnan(x); });
        fsweep_pred("isinf", [](V a) { return avel::isinf(a); }, [](S x) { return std::isinf(x); });
        fsweep_pred("isfinite", [](V a) { return avel::isfinite(a); }, [](S x) { return std::isfinite(x); });
        fsweep_pred("isnormal", [](V a) { return avel::isnormal(a); }, [](S x) { return std::isnormal(x); });
        fsweep_pred("signbit", [](V a) { return avel::signbit(a); }, [](S x) { return std::signbit(x); });
        fsweep_pred("nz", [](V a) { return M(a); }, [](S x) { return x != S(0); });
    }
    template<class VV = V>
    typename std::enable_if<sizeof(typename VV::scalar) != 4>::type fsweep(bool) {}

    // byteswap is missing for some float vectors (a C19 matter): call it where it exists
    template<class VV, class = void>
    struct has_byteswap : std::false_type {};
    template<class VV>
    struct has_byteswap<VV, decltype(void(avel::byteswap(std::declval<VV>())))> : std::true_type {};
    template<class VV = V>
    typename std::enable_if<has_byteswap<VV>::value>::type byteswap_if() {
        un("byteswap", "op", false, [](V a) { return avel::byteswap(a); });
    }
    template<class VV = V>
    typename std::enable_if<!has_byteswap<VV>::value>::type byteswap_if() {}

    // ----------------------------------------------------------------- C07 (float part), C03 conversions
    void fselect() {
        bin("min", "op", false, [](V a, V b) { return avel::min(a, b); });
        bin("max", "op", false, [](V a, V b) { return avel::max(a, b); });
        bin("min", "minmax", false, [](V a, V b) { return avel::minmax(a, b)[0]; });
        bin("max", "minmax", false, [](V a, V b) { return avel::minmax(a, b)[1]; });
        bin("copysign", "op", false, [](V a, V b) { return avel::copysign(a, b); });
        un("abs", "op", false, [](V a) { return avel::abs(a); });
        un("neg_abs", "op", false, [](V a) { return avel::neg_abs(a); });
        byteswap_if();
        pred1("nz", [](V a) { return M(a); });                 // mask(vector)
        unsigned phase = 0;
        set_label(tn, "blend");
        for_pair_batches([&](const A& a, const A& b) {
            std::array<bool, N> mb;
            for (unsigned j = 0; j < N; ++j) mb[j] = (((j * 7 + phase) >> (phase % 3)) & 1) != 0;
            ++phase;
            A rb{}, rk{}, rc{}, rn{}, rv{};
            int sg = guarded([&] {
                M m(mb);
                rb = avel::to_array(avel::blend(m, V(a), V(b)));
                rk = avel::to_array(avel::keep(m, V(a)));
                rc = avel::to_array(avel::clear(m, V(a)));
                rn = avel::to_array(avel::negate(m, V(a)));
                rv = avel::to_array(V(m));
            });
            for (unsigned j = 0; j < N; ++j) {
                S z = S(0);
                emit(Fact("blend", 'f').num("m", mb[j]).val("a", a[j]).val("b", b[j]).val("r", sg ? z : rb[j]).signal(sg), tn, int(j), "op");
                emit(Fact("keep", 'f').num("m", mb[j]).val("a", a[j]).val("r", sg ? z : rk[j]).signal(sg), tn, int(j), "op");
                emit(Fact("clear", 'f').num("m", mb[j]).val("a", a[j]).val("r", sg ? z : rc[j]).signal(sg), tn, int(j), "op");
                emit(Fact("negate", 'f').num("m", mb[j]).val("a", a[j]).val("r", sg ? z : rn[j]).signal(sg), tn, int(j), "op");
                emit(Fact("b2v", 'f').num("m", mb[j]).val("r", sg ? z : rv[j]).signal(sg), tn, int(j), "op");
            }
        });
        set_label(tn, "clamp");
        std::size_t rot = 0;
        for_pair_batches([&](const A& a, const A& b) {
            A x, r{};
            for (unsigned j = 0; j < N; ++j) {
                const std::pair<S, S>& p = P[(rot * 31 + j * 17) % P.size()];
                x[j] = (rot & 1) ? p.first : p.second;
            }
            ++rot;
            opaque(x);
            int sg = guarded([&] { r = avel::to_array(avel::clamp(V(x), V(a), V(b))); });
            for (unsigned j = 0; j < N; ++j)
                emit(Fact("clamp", 'f').val("a", x[j]).val("b", a[j]).val("c", b[j]).val("r", sg ? S(0) : r[j]).signal(sg), tn, int(j), "op");
        });
    }
};

//------------------------------------------------------------------------
// scalar overloads (C16)
//------------------------------------------------------------------------
template<class S>
struct FSDrv {
    typedef typename std::conditional<sizeof(S) == 4, std::int32_t, std::int64_t>::type IS;
    const char* tn;
    std::vector<std::pair<S, S>> P;
    std::vector<S> U1;
    FSDrv(const char* name, std::uint64_t seed) : tn(name) {
        FDrv<avel::Vector<S, 1>> d(name, seed);   // the same input streams as the vectors
        P = d.P;
        U1 = d.U1;
    }
    template<class F>
    void un(const char* op, bool moded, F f) {
        set_label(tn, op);
        for (S a : U1) {
            S r = 0, ao = a;
            opaque(ao);
            int sg = guarded([&] { r = f(ao); });
            Fact x(op, 'f');
            if (moded) x.mode(g_rm);
            if (g_x87rc >= 0) x.num("x87", g_x87rc);
            emit(x.val("a", a).val("r", sg ? S(0) : r).signal(sg), tn, 0, "scalar");
        }
    }
    template<class F>
    void bin(const char* op, bool moded, F f) {
        set_label(tn, op);
        for (const std::pair<S, S>& p : P) {
            S r = 0, ao = p.first, bo = p.second;
            opaque(ao);
            opaque(bo);
            int sg = guarded([&] { r = f(ao, bo); });
            Fact x(op, 'f');
            if (moded) x.mode(g_rm);
            emit(x.val("a", p.first).val("b", p.second).val("r", sg ? S(0) : r).signal(sg), tn, 0, "scalar");
        }
    }
    template<class F>
    void pred1(const char* op, F f) {
        set_label(tn, op);
        for (S a : U1) {
            bool r = false;
            S ao = a;
            opaque(ao);
            int sg = guarded([&] { r = f(ao); });
            emit(Fact(op, 'f').val("a", a).num("r", sg ? 0 : int(r)).signal(sg), tn, 0, "scalar");
        }
    }
    template<class F>
    void pred2(const char* op, F f) {
        set_label(tn, op);
        for (const std::pair<S, S>& p : P) {
            bool r = false;
            S ao = p.first, bo = p.second;
            opaque(ao);
            opaque(bo);
            int sg = guarded([&] { r = f(ao, bo); });
            emit(Fact(op, 'f').val("a", p.first).val("b", p.second).num("r", sg ? 0 : int(r)).signal(sg), tn, 0, "scalar");
        }
    }
    void farith() { un("sqrt", true, [](S a) { return avel::sqrt(a); }); }
    void fround() {
        un("ceil", true, [](S a) { return avel::ceil(a); });
        un("floor", true, [](S a) { return avel::floor(a); });
        un("trunc", true, [](S a) { return avel::trunc(a); });
        un("round", true, [](S a) { return avel::round(a); });
        un("nearbyint", true, [](S a) { return avel::nearbyint(a); });
        un("rint", true, [](S a) { return avel::rint(a); });
    }
    void fsplit() {
        un("nearbyint", true, [](S a) { return avel::nearbyint(a); });
        un("rint", true, [](S a) { return avel::rint(a); });
    }
    void fmanip() {
        set_label(tn, "frexp");
        for (S a : U1) {
            S r = 0, ao = a;
            IS ex = 0;
            opaque(ao);
            int sg = guarded([&] { r = avel::frexp(ao, &ex); });
            emit(Fact("frexp", 'f').val("a", a).val("ex", sg ? IS(0) : ex).val("r", sg ? S(0) : r).signal(sg), tn, 0, "scalar");
        }
        std::vector<S> vals = fp_lattice<S>(0);
        const long long exps[] = {0, 1, -1, 2, -2, 23, 24, -24, 52, 53, -53, 126, 127, 128, -126, -127, -149, -150, -151, 1023, 1024, -1022, -1074, -1075,
                                  2000, -2200, 300, -300, 77, -77, INT_MAX, INT_MIN, 65536, -65536};
        for (int which = 0; which < 2; ++which) {
            set_label(tn, which ? "scalbn" : "ldexp");
            for (long long e : exps)
                for (S a : vals) {
                    S r = 0, ao = a;
                    IS eo = IS(e);
                    opaque(ao);
                    opaque(eo);
                    int sg = guarded([&] { r = which ? avel::scalbn(ao, eo) : avel::ldexp(ao, eo); });
                    emit(Fact("ldexp", 'f').mode(g_rm).val("a", a).val("ex", IS(e)).val("r", sg ? S(0) : r).signal(sg), tn, 0, which ? "scalar_scalbn" : "scalar");
                }
        }
        set_label(tn, "ilogb");
        for (S a : U1) {
            IS r = 0;
            S ao = a;
            opaque(ao);
            int sg = guarded([&] { r = avel::ilogb(ao); });
            emit(Fact("ilogb", 'f').val("a", a).val("r", sg ? IS(0) : r).val("c0", IS(FP_ILOGB0)).val("cnan", IS(FP_ILOGBNAN)).val("cinf", IS(INT_MAX)).signal(sg), tn, 0, "scalar");
        }
        un("logb", false, [](S a) { return avel::logb(a); });
        un("frac", false, [](S a) { return avel::frac(a); });
        bin("fmax", false, [](S a, S b) { return avel::fmax(a, b); });
        bin("fmin", false, [](S a, S b) { return avel::fmin(a, b); });
        bin("fdim", true, [](S a, S b) { return avel::fdim(a, b); });
    }
    void fclass() {
        set_label(tn, "fpclassify");
        for (S a : U1) {
            long r = 0;
            S ao = a;
            opaque(ao);
            int sg = guarded([&] { r = long(avel::fpclassify(ao)); });
            unsigned char ab[sizeof(S)];
            std::memcpy(ab, &a, sizeof(S));
            std::string s = "{\"o\":\"fpclassify\",\"k\":\"f\",\"a\":[";
            for (unsigned i = 0; i < sizeof(S); ++i) s += (i ? "," : "") + std::to_string(unsigned(ab[i]));
            s += std::string("],\"r\":\"") + (sg ? "none" : FDrv<avel::Vector<S, 1>>::class_name(r)) + "\",\"sig\":\"" + signame(sg) + "\"}";
            emit_raw(s, tn, "scalar");
        }
        pred1("isnan", [](S a) { return avel::isnan(a); });
        pred1("isinf", [](S a) { return avel::isinf(a); });
        pred1("isfinite", [](S a) { return avel::isfinite(a); });
        pred1("isnormal", [](S a) { return avel::isnormal(a); });
        pred1("signbit", [](S a) { return avel::signbit(a); });
        pred2("isgreater", [](S a, S b) { return avel::isgreater(a, b); });
        pred2("isgreaterequal", [](S a, S b) { return avel::isgreaterequal(a, b); });
        pred2("isless", [](S a, S b) { return avel::isless(a, b); });
        pred2("islessequal", [](S a, S b) { return avel::islessequal(a, b); });
        pred2("islessgreater", [](S a, S b) { return avel::islessgreater(a, b); });
        pred2("isunordered", [](S a, S b) { return avel::isunordered(a, b); });
    }
    void fselect() {
        bin("min", false, [](S a, S b) { return avel::min(a, b); });
        bin("max", false, [](S a, S b) { return avel::max(a, b); });
        bin("copysign", false, [](S a, S b) { return avel::copysign(a, b); });
        un("abs", false, [](S a) { return avel::abs(a); });
        un("neg_abs", false, [](S a) { return avel::neg_abs(a); });
        un("byteswap", false, [](S a) { return avel::byteswap(a); });
        set_label(tn, "blend");
        unsigned ph = 0;
        for (const std::pair<S, S>& p : P) {
            bool m = ((ph++ >> 1) & 1) != 0;
            S rb = 0, rk = 0, rc = 0, rn = 0, ao = p.first, bo = p.second;
            opaque(ao);
            opaque(bo);
            int sg = guarded([&] {
                rb = avel::blend(m, ao, bo);
                rk = avel::keep(m, ao);
                rc = avel::clear(m, ao);
                rn = avel::negate(m, ao);
            });
            S z = 0;
            emit(Fact("blend", 'f').num("m", m).val("a", p.first).val("b", p.second).val("r", sg ? z : rb).signal(sg), tn, 0, "scalar");
            emit(Fact("keep", 'f').num("m", m).val("a", p.first).val("r", sg ? z : rk).signal(sg), tn, 0, "scalar");
            emit(Fact("clear", 'f').num("m", m).val("a", p.first).val("r", sg ? z : rc).signal(sg), tn, 0, "scalar");
            emit(Fact("negate", 'f').num("m", m).val("a", p.first).val("r", sg ? z : rn).signal(sg), tn, 0, "scalar");
        }
        set_label(tn, "clamp");
        std::size_t rot = 0;
        for (const std::pair<S, S>& p : P) {
            const std::pair<S, S>& q = P[(rot * 31) % P.size()];
            S x = (rot & 1) ? q.first : q.second;
            ++rot;
            S r = 0, lo = p.first, hi = p.second;
            opaque(x);
            int sg = guarded([&] { r = avel::clamp(x, lo, hi); });
            emit(Fact("clamp", 'f').val("a", x).val("b", lo).val("c", hi).val("r", sg ? S(0) : r).signal(sg), tn, 0, "scalar");
        }
    }
};

template<class D>
static void dispatch(D& d, const std::string& family) {
    if (family == "fsplit") { d.fsplit(); return; }
    if (family == "farith") d.farith();
    else if (family == "fround") d.fround();
    else if (family == "fmanip") d.fmanip();
    else if (family == "fclass") d.fclass();
    else if (family == "fselect") d.fselect();
}

#if defined(AVEL_SSE2)
#define VH_HAS_SIMD 1
#else
#define VH_HAS_SIMD 0
#endif

int main(int argc, char** argv) {
    if (argc < 5) return 2;
    std::string family = argv[1];
    g_tier = std::strcmp(argv[2], "thorough") == 0;
    std::uint64_t seed = std::strtoull(argv[3], nullptr, 10);
    if (!open_sink(argv[4])) return 2;
    install_handlers();
    const bool moded = family == "farith" || family == "fround" || family == "fmanip" || family == "fsweep" || family == "fenv";
    // fsplit: fesetround-like setting of both units to x, then MXCSR alone to rc (what _MM_SET_ROUNDING_MODE or a
    // restored MXCSR leave behind); quick: one derangement of the four modes, thorough: all twelve unequal pairs
    const unsigned nsplit = g_tier ? 12u : 4u;
    for (unsigned it = 0; it < (family == "fsplit" ? nsplit : moded ? 4u : 1u); ++it) {
        unsigned rc = it;
        if (family == "fsweep" && rc >= 2) break;     // the exhaustive sweep runs under round-to-nearest and round-down
        if (family == "fsplit") {
            const unsigned x = g_tier ? it / 3 : it;
            rc = g_tier ? (x + 1 + it % 3) % 4 : (it + 1) % 4;
            set_rounding(x);
            _mm_setcsr((_mm_getcsr() & ~0x6000u) | (rc << 13));
            g_x87rc = int(x);
        } else
            set_rounding(rc);
        g_rm = rc_name(rc);
#define RUN_F(X)                                   \
    if (!(family == "fsweep" && VH_HAS_SIMD && std::strcmp(#X, "1x32f") == 0)) \
    {                                              \
        FDrv<avel::vec##X> d(#X, seed);            \
        if (family == "fcmp") d.fcmp();            \
        else if (family == "fsweep") d.fsweep(rc == 0); \
        else if (family == "fmask") d.fmask();     \
        else if (family == "fenv") d.fenv();       \
        else dispatch(d, family);                  \
    }
        if (!std::getenv("VH_SCALAR_ONLY")) {
            VH_FLOAT_TYPES(RUN_F)
        }
#if VH_G(32)
        { FSDrv<float> d("s32f", seed); dispatch(d, family); }
#endif
#if VH_G(64)
        { FSDrv<double> d("s64f", seed); dispatch(d, family); }
#endif
        flush_env_facts();
    }
    set_rounding(0);
    close_sink();
    return 0;
}
