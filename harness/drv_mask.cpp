// Mask driver (C03).
//   family "maskfacts": mask operations on immediate operands, all observers
//                       of the result recorded (order-free facts, k = "m")
//   family "maskrm":    register programs - NR live Vector_mask objects, long
//                       random programs whose results feed later operations;
//                       one ndjson trace per mask type: <prefix>.<type>.rm
// usage: drv_mask <family> <tier> <seed> <out-prefix>
#include "common/inputs.hpp"
#include "common/types.hpp"
#include "common/vh.hpp"

using namespace vh;

static std::string words(const bool* b, unsigned n) {
    std::string s = "[";
    for (unsigned w = 0; w * 16 < n; ++w) {
        unsigned v = 0;
        for (unsigned i = 0; i < 16 && w * 16 + i < n; ++i)
            if (b[w * 16 + i]) v |= 1u << i;
        if (w) s += ",";
        s += std::to_string(v);
    }
    return s + "]";
}

template<class V>
struct MDrv {
    typedef typename V::scalar S;
    typedef typename V::mask M;
    enum { N = V::width };
    typedef std::array<bool, N> AB;
    const char* tn;
    Rng rng;

    MDrv(const char* name, std::uint64_t seed) : tn(name), rng(seed * 1315423911ull + N) {}

    // insert<I> with a run-time index
    template<unsigned I, int D = 0>
    struct Ins {
        static M at(M m, unsigned i, bool b) { return i == I ? avel::insert<I>(m, b) : Ins<I - 1>::at(m, i, b); }
    };
    template<int D>
    struct Ins<0, D> {
        static M at(M m, unsigned, bool b) { return avel::insert<0>(m, b); }
    };
    static M insert_at(M m, unsigned i, bool b) { return Ins<N - 1>::at(m, i, b); }

    static bool is_one(S x) {
        S one = S(1);
        return std::memcmp(&x, &one, sizeof(S)) == 0;
    }
    static bool is_zero(S x) {
        S z = S(0);
        return std::memcmp(&x, &z, sizeof(S)) == 0;
    }
    static bool is_ones(S x) {
        unsigned char b[sizeof(S)];
        std::memcpy(b, &x, sizeof(S));
        for (unsigned i = 0; i < sizeof(S); ++i)
            if (b[i] != 0xFF) return false;
        return true;
    }

    // set_bits exists for integer vectors only
    template<class VV = V>
    static typename std::enable_if<!std::is_floating_point<typename VV::scalar>::value, std::array<S, N>>::type
    set_bits_lanes(M m) { return avel::to_array(avel::set_bits(m)); }
    template<class VV = V>
    static typename std::enable_if<std::is_floating_point<typename VV::scalar>::value, std::array<S, N>>::type
    set_bits_lanes(M) { return std::array<S, N>{}; }
    static constexpr bool has_set_bits = !std::is_floating_point<S>::value;

    // all observers of m, as JSON members
    static std::string observe(M m) {
        int l[N];
        mask_lanes(m, l);
        bool lanes[N], tv1[N], tv0[N], sb1[N], sb0[N];
        auto tv = avel::to_array(V(m));
        std::array<S, N> sb = set_bits_lanes(m);
        for (unsigned i = 0; i < N; ++i) {
            lanes[i] = l[i] != 0;
            tv1[i] = is_one(tv[i]);
            tv0[i] = is_zero(tv[i]);
            sb1[i] = is_ones(sb[i]);
            sb0[i] = is_zero(sb[i]);
        }
        std::string s = "\"lanes\":" + words(lanes, N) + ",\"tv1\":" + words(tv1, N) + ",\"tv0\":" + words(tv0, N);
        if (has_set_bits) s += ",\"sb1\":" + words(sb1, N) + ",\"sb0\":" + words(sb0, N);
        s += ",\"count\":" + std::to_string(avel::count(m));
        s += ",\"any\":" + std::to_string(int(avel::any(m)));
        s += ",\"all\":" + std::to_string(int(avel::all(m)));
        s += ",\"none\":" + std::to_string(int(avel::none(m)));
        s += ",\"eqself\":" + std::to_string(int(m == m));
        s += ",\"neself\":" + std::to_string(int(m != m));
        return s;
    }

    static AB from_bits(std::uint64_t bits) {
        AB a;
        for (unsigned i = 0; i < N; ++i) a[i] = (bits >> i) & 1u;
        return a;
    }

    std::vector<std::uint64_t> patterns() {
        std::vector<std::uint64_t> p;
        const std::uint64_t full = N == 64 ? ~0ull : ((1ull << N) - 1);
        if (N <= 8 || (N == 16 && g_tier)) {
            for (std::uint64_t v = 0; v <= full; ++v) p.push_back(v);
            return p;
        }
        p.push_back(0);
        p.push_back(full);
        for (unsigned i = 0; i < N; ++i) {
            p.push_back(1ull << i);                       // single lane
            p.push_back(full & ~(1ull << i));             // all but one
            p.push_back(full & ((2ull << i) - 1));        // prefix
            p.push_back(full & ~((1ull << i) - 1));       // suffix
        }
        p.push_back(full & 0x5555555555555555ull);
        p.push_back(full & 0xAAAAAAAAAAAAAAAAull);
        p.push_back(full & 0x00FF00FF00FF00FFull);
        p.push_back(full & 0xFF00FF00FF00FF00ull);
        p.push_back(full & 0x0F0F0F0F0F0F0F0Full);
        p.push_back(full & 0x0000FFFF0000FFFFull);
        p.push_back(full & 0x00000000FFFFFFFFull);
        p.push_back(full & 0xFFFFFFFF00000000ull);
        for (int i = 0; i < (g_tier ? 2000 : 200); ++i) p.push_back(rng.next() & full);
        std::sort(p.begin(), p.end());
        p.erase(std::unique(p.begin(), p.end()), p.end());
        return p;
    }

    static std::string w64(std::uint64_t bits) {
        bool b[N];
        for (unsigned i = 0; i < N; ++i) b[i] = (bits >> i) & 1u;
        return words(b, N);
    }

    void fact(const char* op, const std::string& args, int sg, M r, const char* form) {
        std::string s = std::string("{\"o\":\"") + op + "\",\"k\":\"m\",\"n\":" + std::to_string(unsigned(N)) + args;
        if (sg == 0) s += "," + observe(r);
        s += std::string(",\"sig\":\"") + signame(sg) + "\"}";
        emit_raw(s, tn, form);
    }

    void facts() {
        std::vector<std::uint64_t> P = patterns();
        set_label(tn, "mask");
        // unary / constructors / insert
        for (std::uint64_t a : P) {
            AB aa = from_bits(a);
            opaque(aa);
            std::string A = ",\"a\":" + w64(a);
            M r(false);
            int sg = guarded([&] { r = M(aa); });
            fact("m_from_array", ",\"arg\":" + w64(a), sg, r, "ctor");
            sg = guarded([&] { r = !M(aa); });
            fact("m_not", A, sg, r, "op");
            sg = guarded([&] { M x(aa); M y(x); r = y; });
            fact("m_id", A, sg, r, "copy");
            for (unsigned i = 0; i < N; ++i) {
                if (N > 16 && !g_tier && (i % 5) != (a % 5)) continue;
                for (int b = 0; b < 2; ++b) {
                    sg = guarded([&] { r = insert_at(M(aa), i, b != 0); });
                    fact("m_insert", A + ",\"i\":" + std::to_string(i) + ",\"bv\":" + std::to_string(b), sg, r, "op");
                }
            }
        }
        for (int b = 0; b < 2; ++b) {
            M r(false);
            bool bb = b != 0;
            opaque(bb);
            int sg = guarded([&] { r = M(bb); });
            fact("m_from_bool", ",\"bv\":" + std::to_string(b), sg, r, "ctor");
            sg = guarded([&] { M x(!bb); x = bb; r = x; });
            fact("m_from_bool", ",\"bv\":" + std::to_string(b), sg, r, "assign");
        }
        // binary
        std::vector<std::uint64_t> Q = P;
        if (((N > 4 && !g_tier) || N > 8) && Q.size() > 70) {   // thin out for the square
            std::vector<std::uint64_t> t;
            for (std::size_t i = 0; i < Q.size(); i += (Q.size() / 60 + 1)) t.push_back(Q[i]);
            t.push_back(Q.back());
            Q.swap(t);
        }
        for (std::uint64_t a : Q)
            for (std::uint64_t b : Q) {
                AB aa = from_bits(a), bb = from_bits(b);
                opaque(aa);
                opaque(bb);
                std::string AB_ = ",\"a\":" + w64(a) + ",\"b\":" + w64(b);
                M r(false);
                int sg;
                sg = guarded([&] { r = M(aa) & M(bb); });
                fact("m_and", AB_, sg, r, "op");
                sg = guarded([&] { r = M(aa) | M(bb); });
                fact("m_or", AB_, sg, r, "op");
                sg = guarded([&] { r = M(aa) ^ M(bb); });
                fact("m_xor", AB_, sg, r, "op");
                sg = guarded([&] { r = M(aa) && M(bb); });
                fact("m_land", AB_, sg, r, "op");
                sg = guarded([&] { r = M(aa) || M(bb); });
                fact("m_lor", AB_, sg, r, "op");
                sg = guarded([&] { M x(aa); x &= M(bb); r = x; });
                fact("m_and", AB_, sg, r, "eq");
                sg = guarded([&] { M x(aa); x |= M(bb); r = x; });
                fact("m_or", AB_, sg, r, "eq");
                sg = guarded([&] { M x(aa); x ^= M(bb); r = x; });
                fact("m_xor", AB_, sg, r, "eq");
                bool e = false, ne = false;
                sg = guarded([&] { e = (M(aa) == M(bb)); ne = (M(aa) != M(bb)); });
                emit_raw("{\"o\":\"m_eq\",\"k\":\"m\",\"n\":" + std::to_string(unsigned(N)) + AB_ + ",\"rb\":" + std::to_string(int(e)) +
                             ",\"sig\":\"" + signame(sg) + "\"}", tn, "op");
                emit_raw("{\"o\":\"m_ne\",\"k\":\"m\",\"n\":" + std::to_string(unsigned(N)) + AB_ + ",\"rb\":" + std::to_string(int(ne)) +
                             ",\"sig\":\"" + signame(sg) + "\"}", tn, "op");
            }
    }

    // register program
    void program(const std::string& prefix) {
        std::string path = prefix + "." + tn + ".rm";
        FILE* f = std::fopen(path.c_str(), "w");
        if (!f) std::exit(2);
        const unsigned NR = 4;
        M R[NR] = {M(false), M(false), M(false), M(false)};
        std::fprintf(f, "{\"e\":\"reset\",\"n\":%u}\n", unsigned(N));
        set_label(tn, "maskrm");
        Rng r(rng.next());
        const std::uint64_t full = N == 64 ? ~0ull : ((1ull << N) - 1);
        const unsigned steps = g_tier ? 20000 : 1500;
        for (unsigned s = 0; s < steps + NR; ++s) {
            unsigned op = s < NR ? 100 : unsigned(r.next() % 14);
            unsigned d = s < NR ? s : unsigned(r.next() % NR);
            unsigned x = unsigned(r.next() % NR), y = unsigned(r.next() % NR);
            unsigned i = unsigned(r.next() % N);
            int bv = int(r.next() & 1);
            std::uint64_t bits = r.next() & full;
            if (r.next() % 8 == 0) bits = full;
            const char* name = "";
            std::string extra;
            int sg = 0;
            bool is_cmp = false, rb = false;
            switch (op) {
                case 0: name = "m_and"; sg = guarded([&] { R[d] = R[x] & R[y]; }); break;
                case 1: name = "m_or"; sg = guarded([&] { R[d] = R[x] | R[y]; }); break;
                case 2: name = "m_xor"; sg = guarded([&] { R[d] = R[x] ^ R[y]; }); break;
                case 3: name = "m_not"; sg = guarded([&] { R[d] = !R[x]; }); break;
                case 4: name = "m_land"; sg = guarded([&] { R[d] = R[x] && R[y]; }); break;
                case 5: name = "m_lor"; sg = guarded([&] { R[d] = R[x] || R[y]; }); break;
                case 6: name = "m_and"; x = d; sg = guarded([&] { R[d] &= R[y]; }); break;
                case 7: name = "m_or"; x = d; sg = guarded([&] { R[d] |= R[y]; }); break;
                case 8: name = "m_xor"; x = d; sg = guarded([&] { R[d] ^= R[y]; }); break;
                case 9:
                    name = "m_insert";
                    extra = ",\"i\":" + std::to_string(i) + ",\"bv\":" + std::to_string(bv);
                    sg = guarded([&] { R[d] = insert_at(R[x], i, bv != 0); });
                    break;
                case 10:
                    name = "m_from_bool";
                    extra = ",\"bv\":" + std::to_string(bv);
                    if (bits & 1) sg = guarded([&] { R[d] = M(bv != 0); });
                    else sg = guarded([&] { R[d] = (bv != 0); });
                    x = 0;
                    break;
                case 11: name = "m_id"; sg = guarded([&] { M t(R[x]); R[d] = t; }); break;
                case 12:
                case 13:
                    is_cmp = true;
                    name = op == 12 ? "m_eq" : "m_ne";
                    sg = guarded([&] { rb = op == 12 ? (R[x] == R[y]) : (R[x] != R[y]); });
                    break;
                default: {
                    name = "m_from_array";
                    AB a = from_bits(bits);
                    opaque(a);
                    extra = ",\"arg\":" + w64(bits);
                    sg = guarded([&] { R[d] = M(a); });
                    x = 0;
                    break;
                }
            }
            if (is_cmp) {
                std::fprintf(f, "{\"e\":\"cmp\",\"o\":\"%s\",\"x\":%u,\"y\":%u,\"rb\":%d,\"sig\":\"%s\"}\n", name, x + 1, y + 1, int(rb), signame(sg));
                continue;
            }
            bool unary_src = (op == 3 || op == 9 || op == 11);
            bool nosrc = (op == 10 || op >= 14);
            unsigned xo = nosrc ? 0 : x + 1;
            unsigned yo = (unary_src || nosrc) ? 0 : y + 1;
            std::string obs = sg == 0 ? observe(R[d]) : std::string("\"lanes\":") + w64(0);
            std::fprintf(f, "{\"e\":\"op\",\"o\":\"%s\",\"n\":%u,\"d\":%u,\"x\":%u,\"y\":%u%s,%s,\"sig\":\"%s\"}\n", name, unsigned(N),
                         d + 1, xo, yo, extra.c_str(), obs.c_str(), signame(sg));
            if (sg) R[d] = M(false);
        }
        std::fclose(f);
    }
};

int main(int argc, char** argv) {
    if (argc < 5) return 2;
    std::string family = argv[1];
    g_tier = std::strcmp(argv[2], "thorough") == 0;
    std::uint64_t seed = std::strtoull(argv[3], nullptr, 10);
    std::string prefix = argv[4];
    if (!open_sink(prefix)) return 2;
    install_handlers();
#define RUN_M(X)                                    \
    {                                               \
        MDrv<avel::vec##X> d(#X, seed);             \
        if (family == "maskfacts") d.facts();       \
        else if (family == "maskrm") d.program(prefix); \
    }
    VH_ALL_TYPES(RUN_M)
    close_sink();
    return 0;
}
