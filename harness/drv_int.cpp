// Integer lane driver: executes AVEL's integer vector operations (and the
// scalar overloads) on inputs chosen from the specification's case analysis
// and records one fact per lane.  Families:
//   arith (C01)  cmp (C02)  bits (C04)  div (C05)  bitfn (C06)  select (C07)
// usage: drv_int <family> <tier: quick|thorough> <seed> <out-prefix>
#include "common/inputs.hpp"
#include "common/types.hpp"
#include "common/vh.hpp"

#include <climits>
#include <limits>

using namespace vh;

template<class V>
struct Drv {
    typedef typename V::scalar S;
    typedef typename V::mask M;
    enum { N = V::width };
    typedef std::array<S, N> A;
    typedef typename std::make_unsigned<S>::type US;
    typedef typename std::make_signed<S>::type SS;
    static constexpr char K = kind_of<S>::value;
    static constexpr int W = int(sizeof(S) * 8);
    typedef std::vector<std::pair<S, S>> Pairs;

    const char* tn;
    Rng rng;
    Pairs P;
    std::vector<S> U1;

    Drv(const char* name, std::uint64_t seed) : tn(name), rng(seed) {
        Rng r(seed * 77 + sizeof(S));  // same stream for every width of one element type
        P = pairs<S>(r, g_tier ? 20000 : 1500);
        U1 = singles<S>(r, g_tier ? 20000 : 1500);
    }

    //--------------------------------------------------------------------
    // batching: consecutive operands go to consecutive lanes; a second pass
    // shifts the assignment so that every operand meets another lane
    //--------------------------------------------------------------------
    template<class Fn>
    void for_pair_batches(Fn fn) {
        const std::size_t n = P.size();
        for (int pass = 0; pass < (N > 1 ? 2 : 1); ++pass) {
            const std::size_t off = pass ? (N / 2 + 1) : 0;
            for (std::size_t base = 0; base < n; base += N) {
                A a, b;
                for (unsigned j = 0; j < N; ++j) {
                    const std::pair<S, S>& p = P[(base + j + off) % n];
                    a[j] = p.first;
                    b[j] = p.second;
                }
                opaque(a);
                opaque(b);
                fn(a, b);
            }
        }
        // third pass: every lane holds the same operands.  Emulations that branch on a property of the whole vector
        // ("all lanes small": one cheap instruction instead of the general path) are only reached this way.
        if (N > 1) {
            const std::size_t step = n > 70000 ? n / 70000 + 1 : 1;
            for (std::size_t i = 0; i < n; i += step) {
                A a, b;
                for (unsigned j = 0; j < N; ++j) {
                    a[j] = P[i].first;
                    b[j] = P[i].second;
                }
                opaque(a);
                opaque(b);
                fn(a, b);
            }
            // fourth pass (vectors wider than 128 bits): uniform inside each 128-bit block, different between blocks -
            // emulations that work block-wise and test a whole block at once
            if (N * sizeof(S) > 16) {
                const unsigned lpb = 16 / sizeof(S);
                for (std::size_t i = 0; i + 1 < n; i += 2 * step) {
                    A a, b;
                    for (unsigned j = 0; j < N; ++j) {
                        const std::pair<S, S>& p = P[(i + (j / lpb)) % n];
                        a[j] = p.first;
                        b[j] = p.second;
                    }
                    opaque(a);
                    opaque(b);
                    fn(a, b);
                }
            }
        }
    }

    template<class Fn>
    void for_single_batches(Fn fn) {
        const std::size_t n = U1.size();
        for (int pass = 0; pass < (N > 1 ? 2 : 1); ++pass) {
            const std::size_t off = pass ? (N / 2 + 1) : 0;
            for (std::size_t base = 0; base < n; base += N) {
                A a;
                for (unsigned j = 0; j < N; ++j) a[j] = U1[(base + j + off) % n];
                opaque(a);
                fn(a);
            }
        }
        if (N > 1) {    // uniform vectors (see for_pair_batches)
            const std::size_t step = n > 70000 ? n / 70000 + 1 : 1;
            for (std::size_t i = 0; i < n; i += step) {
                A a;
                for (unsigned j = 0; j < N; ++j) a[j] = U1[i];
                opaque(a);
                fn(a);
            }
        }
    }

    static M mask_from(const std::array<bool, N>& b) { return M(b); }

    //--------------------------------------------------------------------
    // generic runners
    //--------------------------------------------------------------------
    // binary, vector result (possibly of the signed counterpart type)
    template<class F>
    void bin(const char* op, const char* form, F f) {
        set_label(tn, op);
        for_pair_batches([&](const A& a, const A& b) {
            std::array<S, N> r{};
            int sg = guarded([&] {
                auto rv = avel::to_array(f(V(a), V(b)));
                std::memcpy(&r, &rv, sizeof(r));
            });
            for (unsigned j = 0; j < N; ++j)
                emit(Fact(op, K).val("a", a[j]).val("b", b[j]).val("r", sg ? S(0) : r[j]).signal(sg), tn, int(j), form);
        });
    }
    // binary, result left in the first operand (compound assignment); the
    // returned reference must denote the same value
    template<class F>
    void bin_assign(const char* op, const char* form, F f) {
        set_label(tn, op);
        for_pair_batches([&](const A& a, const A& b) {
            A r{}, r2{};
            int sg = guarded([&] {
                V x(a);
                V& ret = f(x, V(b));
                r = avel::to_array(x);
                r2 = avel::to_array(ret);
            });
            for (unsigned j = 0; j < N; ++j) {
                emit(Fact(op, K).val("a", a[j]).val("b", b[j]).val("r", sg ? S(0) : r[j]).signal(sg), tn, int(j), form);
                emit(Fact(op, K).val("a", a[j]).val("b", b[j]).val("r", sg ? S(0) : r2[j]).signal(sg), tn, int(j), form);
            }
        });
    }
    // compound assignment with the SAME object on both sides (x op= x): the operand is then an alias of the
    // destination, which a by-reference parameter that is read after the destination was written gets wrong
    template<class F>
    void self_assign(const char* op, F f, bool as_shift = false) {
        set_label(tn, op);
        for_single_batches([&](const A& a0) {
            A a = a0, r{}, r2{};
            if (as_shift)
                for (unsigned j = 0; j < N; ++j) a[j] = S(US(a[j]) % US(W + 1));     // amount = value: inside the width
            if (std::string(op) == "div" || std::string(op) == "rem")
                for (unsigned j = 0; j < N; ++j)
                    if (a[j] == 0) a[j] = S(1);
            opaque(a);
            int sg = guarded([&] {
                V x(a);
                V& ret = f(x);
                r = avel::to_array(x);
                r2 = avel::to_array(ret);
            });
            for (unsigned j = 0; j < N; ++j) {
                S z = S(0);
                if (as_shift) {
                    emit(Fact(op, K).val("a", a[j]).val("s", std::int64_t(a[j])).val("r", sg ? z : r[j]).signal(sg), tn, int(j), "self_eq");
                    emit(Fact(op, K).val("a", a[j]).val("s", std::int64_t(a[j])).val("r", sg ? z : r2[j]).signal(sg), tn, int(j), "self_eq");
                } else if (std::string(op) == "div" || std::string(op) == "rem") {
                    const bool q = std::string(op) == "div";
                    emit(Fact("div", K).val("a", a[j]).val("b", a[j]).val("q", sg ? z : (q ? r[j] : S(1))).val("r", sg ? z : (q ? z : r[j])).signal(sg), tn, int(j), "self_eq");
                    emit(Fact("div", K).val("a", a[j]).val("b", a[j]).val("q", sg ? z : (q ? r2[j] : S(1))).val("r", sg ? z : (q ? z : r2[j])).signal(sg), tn, int(j), "self_eq");
                } else {
                    emit(Fact(op, K).val("a", a[j]).val("b", a[j]).val("r", sg ? z : r[j]).signal(sg), tn, int(j), "self_eq");
                    emit(Fact(op, K).val("a", a[j]).val("b", a[j]).val("r", sg ? z : r2[j]).signal(sg), tn, int(j), "self_eq");
                }
            }
        });
    }
    template<class F>
    void un(const char* op, const char* form, F f) {
        set_label(tn, op);
        for_single_batches([&](const A& a) {
            std::array<S, N> r{};
            int sg = guarded([&] {
                auto rv = avel::to_array(f(V(a)));
                std::memcpy(&r, &rv, sizeof(r));
            });
            for (unsigned j = 0; j < N; ++j)
                emit(Fact(op, K).val("a", a[j]).val("r", sg ? S(0) : r[j]).signal(sg), tn, int(j), form);
        });
    }
    // unary predicate returning a mask
    template<class F>
    void un_pred(const char* op, const char* form, F f) {
        set_label(tn, op);
        for_single_batches([&](const A& a) {
            int r[N] = {};
            int sg = guarded([&] { mask_lanes(f(V(a)), r); });
            for (unsigned j = 0; j < N; ++j)
                emit(Fact(op, K).val("a", a[j]).num("r", sg ? 0 : r[j]).signal(sg), tn, int(j), form);
        });
    }
    template<class F>
    void cmp(const char* op, F f) {
        set_label(tn, op);
        for_pair_batches([&](const A& a, const A& b) {
            int r[N] = {};
            int sg = guarded([&] { mask_lanes(f(V(a), V(b)), r); });
            for (unsigned j = 0; j < N; ++j)
                emit(Fact(op, K).val("a", a[j]).val("b", b[j]).num("r", sg ? 0 : r[j]).signal(sg), tn, int(j), "op");
        });
    }

    //--------------------------------------------------------------------
    // C01
    //--------------------------------------------------------------------
    void arith() {
        bin("add", "op", [](V a, V b) { return a + b; });
        bin("sub", "op", [](V a, V b) { return a - b; });
        bin("mul", "op", [](V a, V b) { return a * b; });
        bin_assign("add", "eq", [](V& x, V b) -> V& { return x += b; });
        bin_assign("sub", "eq", [](V& x, V b) -> V& { return x -= b; });
        bin_assign("mul", "eq", [](V& x, V b) -> V& { return x *= b; });
        self_assign("add", [](V& x) -> V& { return x += x; });
        self_assign("sub", [](V& x) -> V& { return x -= x; });
        self_assign("mul", [](V& x) -> V& { return x *= x; });
        un("neg", "op", [](V a) { return -a; });
        un("pos", "op", [](V a) { return +a; });
        // ++x / --x: value and returned reference; x++ / x--: old value returned
        set_label(tn, "incdec");
        for_single_batches([&](const A& a) {
            A pre_x{}, pre_ret{}, post_x{}, post_ret{}, dpre_x{}, dpre_ret{}, dpost_x{}, dpost_ret{};
            int sg = guarded([&] {
                V x(a);
                V& ret = ++x;
                pre_x = avel::to_array(x);
                pre_ret = avel::to_array(ret);
                V y(a);
                V old = y++;
                post_x = avel::to_array(y);
                post_ret = avel::to_array(old);
                V z(a);
                V& dret = --z;
                dpre_x = avel::to_array(z);
                dpre_ret = avel::to_array(dret);
                V w(a);
                V dold = w--;
                dpost_x = avel::to_array(w);
                dpost_ret = avel::to_array(dold);
            });
            for (unsigned j = 0; j < N; ++j) {
                S z0 = S(0);
                emit(Fact("inc", K).val("a", a[j]).val("r", sg ? z0 : pre_x[j]).signal(sg), tn, int(j), "pre");
                emit(Fact("inc", K).val("a", a[j]).val("r", sg ? z0 : pre_ret[j]).signal(sg), tn, int(j), "pre_ret");
                emit(Fact("inc", K).val("a", a[j]).val("r", sg ? z0 : post_x[j]).signal(sg), tn, int(j), "post");
                emit(Fact("id", K).val("a", a[j]).val("r", sg ? z0 : post_ret[j]).signal(sg), tn, int(j), "inc_post_ret");
                emit(Fact("dec", K).val("a", a[j]).val("r", sg ? z0 : dpre_x[j]).signal(sg), tn, int(j), "pre");
                emit(Fact("dec", K).val("a", a[j]).val("r", sg ? z0 : dpre_ret[j]).signal(sg), tn, int(j), "pre_ret");
                emit(Fact("dec", K).val("a", a[j]).val("r", sg ? z0 : dpost_x[j]).signal(sg), tn, int(j), "post");
                emit(Fact("id", K).val("a", a[j]).val("r", sg ? z0 : dpost_ret[j]).signal(sg), tn, int(j), "dec_post_ret");
            }
        });
    }

    //--------------------------------------------------------------------
    // C02
    //--------------------------------------------------------------------
    void compare() {
        cmp("eq", [](V a, V b) { return a == b; });
        cmp("ne", [](V a, V b) { return a != b; });
        cmp("lt", [](V a, V b) { return a < b; });
        cmp("le", [](V a, V b) { return a <= b; });
        cmp("gt", [](V a, V b) { return a > b; });
        cmp("ge", [](V a, V b) { return a >= b; });
    }

    //--------------------------------------------------------------------
    // Exhaustive sweep of all 2^32 lane values (32-bit types, thorough tier).
    // The property names its own reference (C++20 <bit> on the element type);
    // the driver computes it with the compiler builtins and records every
    // input on which AVEL and the reference DIFFER.  The comparison decides
    // nothing: it only selects which facts TLC judges (a reference bug can
    // therefore not become an AVEL violation).
    //--------------------------------------------------------------------
    template<class F, class R>
    void sweep_un(const char* op, F f, R ref) {
        set_label(tn, op);
        unsigned long diffs = 0;
        const std::uint64_t BLOCK = 1ull << 20;          // one guard per block: a trap is attributed to the block
        static std::vector<S> out(BLOCK);
        for (std::uint64_t base = 0; base < (1ull << 32); base += BLOCK) {
            int sg = guarded([&] {
                for (std::uint64_t x = base; x < base + BLOCK; x += N) {
                    A a;
                    for (unsigned j = 0; j < N; ++j) a[j] = S(US(x + j));
                    opaque(a);
                    auto rv = avel::to_array(f(V(a)));
                    std::memcpy(&out[x - base], &rv, sizeof(rv));
                }
            });
            for (std::uint64_t x = base; x < base + BLOCK; ++x) {
                S a = S(US(x));
                if (sg || US(out[x - base]) != US(ref(US(x)))) {
                    if (++diffs <= 200000)
                        emit(Fact(op, K).val("a", a).val("r", sg ? S(0) : out[x - base]).signal(sg), tn, int(x % N), "sweep");
                }
            }
        }
        std::fprintf(stderr, "vh-sweep: %s %s inputs=4294967296 disagreements=%lu\n", tn, op, diffs);
    }
    template<class VV = V>
    typename std::enable_if<sizeof(typename VV::scalar) == 4>::type sweep32() {
        typedef std::uint32_t U;
        sweep_un("popcount", [](V a) { return avel::popcount(a); }, [](U x) { return U(__builtin_popcount(x)); });
        sweep_un("countl_zero", [](V a) { return avel::countl_zero(a); }, [](U x) { return U(x ? __builtin_clz(x) : 32); });
        sweep_un("countl_one", [](V a) { return avel::countl_one(a); }, [](U x) { return U(~x ? __builtin_clz(~x) : 32); });
        sweep_un("countr_zero", [](V a) { return avel::countr_zero(a); }, [](U x) { return U(x ? __builtin_ctz(x) : 32); });
        sweep_un("countr_one", [](V a) { return avel::countr_one(a); }, [](U x) { return U(~x ? __builtin_ctz(~x) : 32); });
        sweep_un("byteswap", [](V a) { return avel::byteswap(a); }, [](U x) { return U(__builtin_bswap32(x)); });
        sweep_un("not", [](V a) { return ~a; }, [](U x) { return U(~x); });
        sweep_un("neg", [](V a) { return -a; }, [](U x) { return U(0u - x); });
        sweep_un("neg_abs", [](V a) { return avel::neg_abs(a); }, [](U x) { return (x >> 31) ? x : U(0u - x); });
        sweep_unsigned32();
        sweep_signed32();
    }
    template<class VV = V>
    typename std::enable_if<sizeof(typename VV::scalar) != 4>::type sweep32() {}
    template<class VV = V>
    typename std::enable_if<!std::is_signed<typename VV::scalar>::value>::type sweep_unsigned32() {
        typedef std::uint32_t U;
        sweep_un("bit_width", [](V a) { return avel::bit_width(a); }, [](U x) { return U(x ? 32 - __builtin_clz(x) : 0); });
        sweep_un("bit_floor", [](V a) { return avel::bit_floor(a); }, [](U x) { return U(x ? 1u << (31 - __builtin_clz(x)) : 0); });
        sweep_un("bit_ceil", [](V a) { return avel::bit_ceil(a); },
                 [](U x) { return U(x <= 1 ? 1u : (x > 0x80000000u ? 0u : (x == 0x80000000u ? x : 1u << (32 - __builtin_clz(x - 1))))); });
    }
    template<class VV = V>
    typename std::enable_if<std::is_signed<typename VV::scalar>::value>::type sweep_unsigned32() {}
    template<class VV = V>
    typename std::enable_if<std::is_signed<typename VV::scalar>::value>::type sweep_signed32() {
        typedef std::uint32_t U;
        sweep_un("countl_sign", [](V a) { return avel::countl_sign(a); }, [](U x) { return U(__builtin_clrsb(int(x))); });
        sweep_un("abs", [](V a) { return avel::abs(a); }, [](U x) { return (x >> 31) ? U(0u - x) : x; });
    }
    template<class VV = V>
    typename std::enable_if<!std::is_signed<typename VV::scalar>::value>::type sweep_signed32() {}

    //--------------------------------------------------------------------
    // Exhaustive sweep of all 2^32 operand PAIRS of the 16-bit types (thorough
    // tier) against the C++ operators on the element type (the reference the
    // properties name); disagreements are forwarded to TLC.
    //--------------------------------------------------------------------
    template<class F, class R>
    void sweep2(const char* op, bool skip_undefined_div, F f, R ref) {
        set_label(tn, op);
        unsigned long diffs = 0;
        static std::vector<S> out(65536);
        for (unsigned av = 0; av < 65536; ++av) {
            const S a = S(US(av));
            int sg = guarded([&] {
                for (unsigned bv = 0; bv < 65536; bv += N) {
                    A x, y;
                    for (unsigned j = 0; j < N; ++j) {
                        x[j] = a;
                        y[j] = S(US(bv + j));
                        if (skip_undefined_div && (y[j] == 0 || min_over_m1(x[j], y[j]))) y[j] = S(1);
                    }
                    opaque(x);
                    opaque(y);
                    auto rv = avel::to_array(f(V(x), V(y)));
                    std::memcpy(&out[bv], &rv, sizeof(rv));
                }
            });
            for (unsigned bv = 0; bv < 65536; ++bv) {
                S b = S(US(bv));
                if (skip_undefined_div && (b == 0 || min_over_m1(a, b))) continue;
                if (sg || US(out[bv]) != US(ref(a, b))) {
                    if (++diffs <= 200000)
                        emit(Fact(op, K).val("a", a).val("b", b).val("r", sg ? S(0) : out[bv]).signal(sg), tn, int(bv % N), "sweep");
                }
            }
        }
        std::fprintf(stderr, "vh-sweep: %s %s inputs=4294967296 disagreements=%lu\n", tn, op, diffs);
    }
    template<class F, class R>
    void sweep2_pred(const char* op, F f, R ref) {
        set_label(tn, op);
        unsigned long diffs = 0;
        static std::vector<unsigned char> out(65536);
        for (unsigned av = 0; av < 65536; ++av) {
            const S a = S(US(av));
            int sg = guarded([&] {
                for (unsigned bv = 0; bv < 65536; bv += N) {
                    A x, y;
                    for (unsigned j = 0; j < N; ++j) {
                        x[j] = a;
                        y[j] = S(US(bv + j));
                    }
                    opaque(x);
                    opaque(y);
                    int r[N];
                    mask_lanes(f(V(x), V(y)), r);
                    for (unsigned j = 0; j < N; ++j) out[bv + j] = (unsigned char) r[j];
                }
            });
            for (unsigned bv = 0; bv < 65536; ++bv) {
                S b = S(US(bv));
                if (sg || (out[bv] != 0) != bool(ref(a, b))) {
                    if (++diffs <= 200000)
                        emit(Fact(op, K).val("a", a).val("b", b).num("r", sg ? 0 : out[bv]).signal(sg), tn, int(bv % N), "sweep");
                }
            }
        }
        std::fprintf(stderr, "vh-sweep: %s %s inputs=4294967296 disagreements=%lu\n", tn, op, diffs);
    }
    // quotient and remainder together, so that TLC can judge the pair with DivRel
    void sweep2_div() {
        set_label(tn, "div");
        unsigned long diffs = 0;
        static std::vector<S> oq(65536), orr(65536);
        for (unsigned av = 0; av < 65536; ++av) {
            const S a = S(US(av));
            int sg = guarded([&] {
                for (unsigned bv = 0; bv < 65536; bv += N) {
                    A x, y;
                    for (unsigned j = 0; j < N; ++j) {
                        x[j] = a;
                        y[j] = S(US(bv + j));
                        if (y[j] == 0 || min_over_m1(x[j], y[j])) y[j] = S(1);
                    }
                    opaque(x);
                    opaque(y);
                    auto q = avel::to_array(V(x) / V(y));
                    auto r = avel::to_array(V(x) % V(y));
                    std::memcpy(&oq[bv], &q, sizeof(q));
                    std::memcpy(&orr[bv], &r, sizeof(r));
                }
            });
            for (unsigned bv = 0; bv < 65536; ++bv) {
                S b = S(US(bv));
                if (b == 0 || min_over_m1(a, b)) continue;
                if (sg || oq[bv] != S(a / b) || orr[bv] != S(a % b)) {
                    if (++diffs <= 200000)
                        emit(Fact("div", K).val("a", a).val("b", b).val("q", sg ? S(0) : oq[bv]).val("r", sg ? S(0) : orr[bv]).signal(sg), tn, int(bv % N), "sweep");
                }
            }
        }
        std::fprintf(stderr, "vh-sweep: %s div inputs=4294967296 disagreements=%lu\n", tn, diffs);
    }

    template<class VV = V>
    typename std::enable_if<sizeof(typename VV::scalar) == 2>::type sweep16(const std::string& which) {
        typedef long long LL;
        if (which == "arith") {
            sweep2("add", false, [](V a, V b) { return a + b; }, [](S a, S b) { return S(US(US(a) + US(b))); });
            sweep2("sub", false, [](V a, V b) { return a - b; }, [](S a, S b) { return S(US(US(a) - US(b))); });
            sweep2("mul", false, [](V a, V b) { return a * b; }, [](S a, S b) { return S(US(unsigned(US(a)) * unsigned(US(b)))); });
        } else if (which == "cmp") {
            sweep2_pred("eq", [](V a, V b) { return a == b; }, [](S a, S b) { return a == b; });
            sweep2_pred("ne", [](V a, V b) { return a != b; }, [](S a, S b) { return a != b; });
            sweep2_pred("lt", [](V a, V b) { return a < b; }, [](S a, S b) { return a < b; });
            sweep2_pred("le", [](V a, V b) { return a <= b; }, [](S a, S b) { return a <= b; });
            sweep2_pred("gt", [](V a, V b) { return a > b; }, [](S a, S b) { return a > b; });
            sweep2_pred("ge", [](V a, V b) { return a >= b; }, [](S a, S b) { return a >= b; });
        } else if (which == "select") {
            sweep2("min", false, [](V a, V b) { return avel::min(a, b); }, [](S a, S b) { return a < b ? a : b; });
            sweep2("max", false, [](V a, V b) { return avel::max(a, b); }, [](S a, S b) { return a < b ? b : a; });
            sweep2("average", false, [](V a, V b) { return avel::average(a, b); }, [](S a, S b) { return S((LL(a) + LL(b)) / 2); });
            sweep2("midpoint", false, [](V a, V b) { return avel::midpoint(a, b); }, [](S a, S b) { return S(LL(a) + (LL(b) - LL(a)) / 2); });
        } else if (which == "div") {
            sweep2_div();
        }
    }
    template<class VV = V>
    typename std::enable_if<sizeof(typename VV::scalar) != 2>::type sweep16(const std::string&) {}

    // C03: mask(vector) is set exactly where the lane is non-zero
    void tomask() {
        un_pred("nz", "op", [](V a) { return M(a); });
        // broadcast constructor / assignment from a scalar: every lane is a copy
        set_label(tn, "broadcast");
        for (std::size_t i = 0; i < U1.size(); i += (U1.size() / 600 + 1)) {
            S x = U1[i];
            opaque(x);
            A r1{}, r2{};
            int sg = guarded([&] {
                r1 = avel::to_array(V(x));
                V v{};
                v = x;
                r2 = avel::to_array(v);
            });
            for (unsigned j = 0; j < N; ++j) {
                emit(Fact("id", K).val("a", x).val("r", sg ? S(0) : r1[j]).signal(sg), tn, int(j), "broadcast_ctor");
                emit(Fact("id", K).val("a", x).val("r", sg ? S(0) : r2[j]).signal(sg), tn, int(j), "assign_scalar");
            }
        }
        // count / any / all / none of a vector: its non-zero lanes
        set_label(tn, "v_obs");
        Rng r(rng.next());
        for (int rep = 0; rep < 300; ++rep) {
            A a;
            bool nzl[N];
            std::uint64_t pat = r.next() & r.next();
            if (rep % 7 == 0) pat = ~0ull;
            if (rep % 7 == 1) pat = 0;
            for (unsigned j = 0; j < N; ++j) {
                nzl[j] = (pat >> (j % 64)) & 1u;
                a[j] = nzl[j] ? U1[(rep * 31 + j * 7) % U1.size()] : S(0);
                if (nzl[j] && a[j] == 0) a[j] = S(S(1) << (j % (sizeof(S) * 8)));
            }
            opaque(a);
            unsigned cnt = 0;
            bool an = false, al = false, no = false;
            int sg = guarded([&] {
                V v(a);
                cnt = avel::count(v);
                an = avel::any(v);
                al = avel::all(v);
                no = avel::none(v);
            });
            std::string s = "{\"o\":\"v_obs\",\"k\":\"m\",\"n\":" + std::to_string(unsigned(N)) + ",\"a\":[";
            for (unsigned w = 0; w * 16 < N; ++w) {
                unsigned v16 = 0;
                for (unsigned i = 0; i < 16 && w * 16 + i < N; ++i)
                    if (nzl[w * 16 + i]) v16 |= 1u << i;
                s += (w ? "," : "") + std::to_string(v16);
            }
            s += "],\"count\":" + std::to_string(cnt) + ",\"any\":" + std::to_string(int(an)) + ",\"all\":" + std::to_string(int(al)) +
                 ",\"none\":" + std::to_string(int(no)) + ",\"sig\":\"" + signame(sg) + "\"}";
            emit_raw(s, tn, "op");
        }
    }

    //--------------------------------------------------------------------
    // C04
    //--------------------------------------------------------------------
    // values used for shifts / rotations
    std::vector<S> shift_values() {
        if (sizeof(S) == 1 || g_tier) return U1;
        std::vector<S> v = lattice<S>();
        Rng r(rng.next());
        for (int i = 0; i < 64; ++i) v.push_back(random_value<S>(r));
        return v;
    }

    template<class F>
    void shift_scalar(const char* op, const char* form, const std::vector<S>& vals, const std::vector<long long>& amts, F f) {
        set_label(tn, op);
        for (long long s : amts) {
            for (std::size_t base = 0; base < vals.size(); base += N) {
                A a, r{};
                for (unsigned j = 0; j < N; ++j) a[j] = vals[(base + j) % vals.size()];
                opaque(a);
                long long so = s;
                opaque(so);
                int sg = guarded([&] { r = avel::to_array(f(V(a), so)); });
                for (unsigned j = 0; j < N; ++j)
                    emit(Fact(op, K).val("a", a[j]).val("s", std::int64_t(s)).val("r", sg ? S(0) : r[j]).signal(sg), tn, int(j), form);
            }
        }
    }
    // a different amount in every lane
    template<class F>
    void shift_vector(const char* op, const char* form, const std::vector<S>& vals, int max_amt, F f) {
        set_label(tn, op);
        const std::size_t n = vals.size();
        for (int s0 = 0; s0 <= max_amt; ++s0) {
            for (std::size_t base = 0; base < n; base += N) {
                A a, s, r{};
                for (unsigned j = 0; j < N; ++j) {
                    a[j] = vals[(base + j) % n];
                    s[j] = S((s0 + int(j) * 3 + int(base / N)) % (max_amt + 1));
                }
                opaque(a);
                opaque(s);
                int sg = guarded([&] { r = avel::to_array(f(V(a), V(s))); });
                for (unsigned j = 0; j < N; ++j)
                    emit(Fact(op, K).val("a", a[j]).val("s", std::int64_t(s[j])).val("r", sg ? S(0) : r[j]).signal(sg), tn, int(j), form);
            }
        }
        // periodic amount vectors (period 2 and 4): an emulation that tests "all lanes carry the same amount" on a wider
        // field than one lane takes its uniform fast path for (p, q, p, q, ...)
        if (N >= 4) {
            const int amts[] = {0, 1, max_amt / 2, max_amt - 1, max_amt};
            std::size_t base = 0;
            for (int p : amts)
                for (int q : amts)
                    for (int period = 2; period <= 4; period += 2) {
                        if (p == q) continue;
                        A a, s, r{};
                        for (unsigned j = 0; j < N; ++j) {
                            a[j] = vals[(base + j) % n];
                            s[j] = S((j % unsigned(period)) < unsigned(period) / 2 ? p : q);
                        }
                        base += N;
                        opaque(a);
                        opaque(s);
                        int sg = guarded([&] { r = avel::to_array(f(V(a), V(s))); });
                        for (unsigned j = 0; j < N; ++j)
                            emit(Fact(op, K).val("a", a[j]).val("s", std::int64_t(s[j])).val("r", sg ? S(0) : r[j]).signal(sg), tn, int(j), form);
                    }
        }
    }

    template<unsigned Sh, int Dummy = 0>
    struct CT {
        static void run(Drv& d, const std::vector<S>& vals) {
            d.template ct_one<Sh>(vals);
            CT<Sh - 1>::run(d, vals);
        }
    };
    template<int Dummy>
    struct CT<0, Dummy> {
        static void run(Drv& d, const std::vector<S>& vals) { d.template ct_one<0>(vals); }
    };

    template<unsigned Sh>
    void ct_one(const std::vector<S>& vals) {
        const std::size_t n = vals.size();
        for (std::size_t base = 0; base < n; base += N) {
            A a, r1{}, r2{}, r3{}, r4{};
            for (unsigned j = 0; j < N; ++j) a[j] = vals[(base + j) % n];
            opaque(a);
            set_label(tn, "shl");
            int s1 = guarded([&] { r1 = avel::to_array(avel::bit_shift_left<Sh>(V(a))); });
            set_label(tn, "shr");
            int s2 = guarded([&] { r2 = avel::to_array(avel::bit_shift_right<Sh>(V(a))); });
            set_label(tn, "rotl");
            int s3 = guarded([&] { r3 = avel::to_array(avel::rotl<Sh>(V(a))); });
            set_label(tn, "rotr");
            int s4 = guarded([&] { r4 = avel::to_array(avel::rotr<Sh>(V(a))); });
            for (unsigned j = 0; j < N; ++j) {
                std::int64_t s = Sh;
                emit(Fact("shl", K).val("a", a[j]).val("s", s).val("r", s1 ? S(0) : r1[j]).signal(s1), tn, int(j), "ct");
                emit(Fact("shr", K).val("a", a[j]).val("s", s).val("r", s2 ? S(0) : r2[j]).signal(s2), tn, int(j), "ct");
                emit(Fact("rotl", K).val("a", a[j]).val("s", s).val("r", s3 ? S(0) : r3[j]).signal(s3), tn, int(j), "ct");
                emit(Fact("rotr", K).val("a", a[j]).val("s", s).val("r", s4 ? S(0) : r4[j]).signal(s4), tn, int(j), "ct");
            }
        }
    }
    // rotl<S> / rotr<S> accept any S: a few beyond the width
    template<unsigned Sh>
    void ct_rot_only(const std::vector<S>& vals) {
        const std::size_t n = vals.size();
        for (std::size_t base = 0; base < n; base += N) {
            A a, r3{}, r4{};
            for (unsigned j = 0; j < N; ++j) a[j] = vals[(base + j) % n];
            opaque(a);
            set_label(tn, "rotl");
            int s3 = guarded([&] { r3 = avel::to_array(avel::rotl<Sh>(V(a))); });
            set_label(tn, "rotr");
            int s4 = guarded([&] { r4 = avel::to_array(avel::rotr<Sh>(V(a))); });
            for (unsigned j = 0; j < N; ++j) {
                std::int64_t s = Sh;
                emit(Fact("rotl", K).val("a", a[j]).val("s", s).val("r", s3 ? S(0) : r3[j]).signal(s3), tn, int(j), "ct");
                emit(Fact("rotr", K).val("a", a[j]).val("s", s).val("r", s4 ? S(0) : r4[j]).signal(s4), tn, int(j), "ct");
            }
        }
    }

    void bits() {
        bin("and", "op", [](V a, V b) { return a & b; });
        bin("or", "op", [](V a, V b) { return a | b; });
        bin("xor", "op", [](V a, V b) { return a ^ b; });
        bin_assign("and", "eq", [](V& x, V b) -> V& { return x &= b; });
        bin_assign("or", "eq", [](V& x, V b) -> V& { return x |= b; });
        bin_assign("xor", "eq", [](V& x, V b) -> V& { return x ^= b; });
        self_assign("and", [](V& x) -> V& { return x &= x; });
        self_assign("or", [](V& x) -> V& { return x |= x; });
        self_assign("xor", [](V& x) -> V& { return x ^= x; });
        self_assign("shl", [](V& x) -> V& { x <<= x; return x; }, true);
        self_assign("shr", [](V& x) -> V& { x >>= x; return x; }, true);
        un("not", "op", [](V a) { return ~a; });

        std::vector<S> vals = shift_values();
        std::vector<long long> sh;
        for (int s = 0; s <= W; ++s) sh.push_back(s);
        // amounts above the width: result unspecified, but no trap and no effect elsewhere
        sh.push_back(W + 1);
        sh.push_back(2 * W);
        shift_scalar("shl", "scalar", vals, sh, [](V a, long long s) { return a << s; });
        shift_scalar("shr", "scalar", vals, sh, [](V a, long long s) { return a >> s; });
        shift_scalar("shl", "scalar_eq", vals, sh, [](V a, long long s) { a <<= s; return a; });
        shift_scalar("shr", "scalar_eq", vals, sh, [](V a, long long s) { a >>= s; return a; });
        shift_vector("shl", "vector", vals, W, [](V a, V s) { return a << s; });
        shift_vector("shr", "vector", vals, W, [](V a, V s) { return a >> s; });
        shift_vector("shl", "vector_eq", vals, W, [](V a, V s) { a <<= s; return a; });
        shift_vector("shr", "vector_eq", vals, W, [](V a, V s) { a >>= s; return a; });

        std::vector<long long> rot;
        for (int s = 0; s <= 2 * W + 1; ++s) rot.push_back(s);
        const long long big[] = {3 * W + 5, 1000003, (1ll << 40) + 5, LLONG_MAX, -1, -W, -W - 1, -7, LLONG_MIN, LLONG_MIN + 3};
        for (long long s : big) rot.push_back(s);
        shift_scalar("rotl", "scalar", vals, rot, [](V a, long long s) { return avel::rotl(a, s); });
        shift_scalar("rotr", "scalar", vals, rot, [](V a, long long s) { return avel::rotr(a, s); });
        // per-lane rotation amounts: every value of the lane type is "any amount"
        const int maxrot = (sizeof(S) == 1) ? (K == 'i' ? 127 : 255) : 4 * W + 3;
        shift_vector("rotl", "vector", vals, maxrot, [](V a, V s) { return avel::rotl(a, s); });
        shift_vector("rotr", "vector", vals, maxrot, [](V a, V s) { return avel::rotr(a, s); });

        CT<W>::run(*this, vals);
        // compile-time rotation amounts beyond the width are reduced modulo the width by a separate overload:
        // every residue class that matters (below / at / above half the width, last bit, a second wrap)
        ct_rot_only<W + 1>(vals);
        ct_rot_only<W + W / 2 - 1>(vals);
        ct_rot_only<W + W / 2>(vals);
        ct_rot_only<W + W / 2 + 5>(vals);
        ct_rot_only<2 * W - 1>(vals);
        ct_rot_only<2 * W>(vals);
        ct_rot_only<2 * W + 3>(vals);
        ct_rot_only<2 * W + W / 2 + 4>(vals);
        ct_rot_only<4 * W + W - 1>(vals);
    }

    //--------------------------------------------------------------------
    // C05
    //--------------------------------------------------------------------
    static bool min_over_m1(S x, S y) {
        return K == 'i' && x == std::numeric_limits<S>::min() && y == S(-1);
    }

    void div_batch(const A& a, const A& b) {
        bool undefined_lane = false, zero_lane = false;
        for (unsigned j = 0; j < N; ++j) {
            if (min_over_m1(a[j], b[j])) undefined_lane = true;
            if (b[j] == 0) zero_lane = true;
        }
        // width-1 vectors use the machine's scalar division: a zero divisor may trap there
        if (N == 1 && (zero_lane || undefined_lane)) return;
        A q1{}, r1{}, q2{}, r2{}, q3{}, r3{};
        set_label(tn, "div");
        int s1 = guarded([&] {
            auto d = avel::div(V(a), V(b));
            q1 = avel::to_array(d.quot);
            r1 = avel::to_array(d.rem);
        });
        int s2 = guarded([&] {
            q2 = avel::to_array(V(a) / V(b));
            r2 = avel::to_array(V(a) % V(b));
        });
        int s3 = guarded([&] {
            V x(a), y(a);
            x /= V(b);
            y %= V(b);
            q3 = avel::to_array(x);
            r3 = avel::to_array(y);
        });
        // MIN / -1 is outside the property: a trap caused by such a lane is not an event
        if (undefined_lane && (s1 || s2 || s3)) return;
        for (unsigned j = 0; j < N; ++j) {
            S z = S(0);
            emit(Fact("div", K).val("a", a[j]).val("b", b[j]).val("q", s1 ? z : q1[j]).val("r", s1 ? z : r1[j]).signal(s1), tn, int(j), "div");
            emit(Fact("div", K).val("a", a[j]).val("b", b[j]).val("q", s2 ? z : q2[j]).val("r", s2 ? z : r2[j]).signal(s2), tn, int(j), "ops");
            emit(Fact("div", K).val("a", a[j]).val("b", b[j]).val("q", s3 ? z : q3[j]).val("r", s3 ? z : r3[j]).signal(s3), tn, int(j), "eq");
        }
    }

    // Directed search.  Many structured pairs (small and power-of-two-sized quotients of full-width divisors next to
    // an exact multiple, mixed-width pairs, uniform pairs) go through the three call forms in rotation and are
    // screened natively; the screen only chooses WHICH inputs are logged: every pair it flags and a sample of the
    // others become facts, and TLC (DivRel) decides.
    void div_search() {
        if (sizeof(S) < 2) return;
        const std::size_t rounds = (g_tier ? 4000000u : 500000u) / (sizeof(S) == 8 ? 4 : 1);
        const int Wb = int(sizeof(S) * 8);
        const US lim = std::is_signed<S>::value ? US(US(~US(0)) >> 1) : US(~US(0));
        unsigned long flagged = 0;
        set_label(tn, "div");
        for (std::size_t it = 0; it < rounds; ++it) {
            A a, b;
            for (unsigned j = 0; j < N; ++j) {
                std::uint64_t c = rng.next();
                US mag, k;
                switch (c % 8) {
                    case 0: case 1: case 2:              // small quotient, full-width divisor
                        mag = US(rng.next()) & lim;
                        k = US(1 + (c >> 8) % 64);
                        break;
                    case 3:                               // quotient next to a power of two
                        k = US(US(1) << ((c >> 8) % (Wb - 2)));
                        k = US(k + US((c >> 16) % 3) - 1);
                        mag = US(rng.next()) & lim;
                        if (k > 1) mag = US(mag % US(lim / k + 1));
                        break;
                    case 4:                               // mixed widths
                        mag = US(US(rng.next()) & lim) >> ((c >> 8) % Wb);
                        k = US(US(rng.next()) & lim) >> ((c >> 16) % Wb);
                        break;
                    default:                              // uniform numerator
                        mag = US(US(rng.next()) & lim) >> (((c >> 8) % 4 == 0) ? (c >> 16) % Wb : 0);
                        k = 0;
                        break;
                }
                if (mag == 0) mag = 1;
                US num;
                if (k == 0) num = US(rng.next()) & lim;
                else {
                    if (k > lim / mag) k = US(lim / mag);
                    num = US(US(mag * k) + US((c >> 24) % 3) - 1);
                    if (num > lim) num = lim;
                }
                const bool na = std::is_signed<S>::value && ((c >> 32) & 1), nb = std::is_signed<S>::value && ((c >> 33) & 1);
                a[j] = na ? S(US(0) - num) : S(num);
                b[j] = nb ? S(US(0) - mag) : S(mag);
                if (b[j] == 0 || min_over_m1(a[j], b[j])) b[j] = S(1);
            }
            A q{}, r{};
            const int form = int(it % 3);
            opaque(a);
            opaque(b);
            int sg = guarded([&] {
                if (form == 0) {
                    auto d = avel::div(V(a), V(b));
                    q = avel::to_array(d.quot);
                    r = avel::to_array(d.rem);
                } else if (form == 1) {
                    q = avel::to_array(V(a) / V(b));
                    r = avel::to_array(V(a) % V(b));
                } else {
                    V x(a), y(a);
                    x /= V(b);
                    y %= V(b);
                    q = avel::to_array(x);
                    r = avel::to_array(y);
                }
            });
            bool bad = sg != 0;
            for (unsigned j = 0; j < N && !bad; ++j) bad = q[j] != S(a[j] / b[j]) || r[j] != S(a[j] % b[j]);
            if (bad) ++flagged;
            if ((bad && flagged <= 400) || it % (rounds / 64) == 0)
                for (unsigned j = 0; j < N; ++j)
                    emit(Fact("div", K).val("a", a[j]).val("b", b[j]).val("q", sg ? S(0) : q[j]).val("r", sg ? S(0) : r[j]).signal(sg), tn, int(j),
                         form == 0 ? "div" : form == 1 ? "ops" : "eq");
        }
        std::fprintf(stderr, "vh-sweep: %s div-search inputs=%lu disagreements=%lu\n", tn, (unsigned long) (rounds * N), flagged);
    }

    void division() {
        for_pair_batches([&](const A& a, const A& b) { div_batch(a, b); });
        div_search();
        self_assign("div", [](V& x) -> V& { return x /= x; });
        self_assign("rem", [](V& x) -> V& { return x %= x; });
        // a zero divisor in every lane position in turn, the other lanes carry checked pairs
        if (N > 1) {
            std::size_t n = P.size();
            for (unsigned z = 0; z < N; ++z) {
                for (int rep = 0; rep < 8; ++rep) {
                    A a, b;
                    for (unsigned j = 0; j < N; ++j) {
                        const std::pair<S, S>& p = P[(rng.next()) % n];
                        a[j] = p.first;
                        b[j] = p.second ? p.second : S(3);
                    }
                    b[z] = 0;
                    if (rep & 1) b[(z + 1) % N] = 0;
                    div_batch(a, b);
                }
            }
        }
    }

    //--------------------------------------------------------------------
    // C06
    //--------------------------------------------------------------------
    template<class VV = V>
    typename std::enable_if<std::is_signed<typename VV::scalar>::value>::type countl_sign_if() {
        un("countl_sign", "op", [](V a) { return avel::countl_sign(a); });
    }
    template<class VV = V>
    typename std::enable_if<!std::is_signed<typename VV::scalar>::value>::type countl_sign_if() {}

    template<class VV = V>
    typename std::enable_if<!std::is_signed<typename VV::scalar>::value>::type unsigned_bitfn() {
        un("bit_width", "op", [](V a) { return avel::bit_width(a); });
        un("bit_floor", "op", [](V a) { return avel::bit_floor(a); });
        un("bit_ceil", "op", [](V a) { return avel::bit_ceil(a); });
    }
    template<class VV = V>
    typename std::enable_if<std::is_signed<typename VV::scalar>::value>::type unsigned_bitfn() {}

    void bitfn() {
        un("popcount", "op", [](V a) { return avel::popcount(a); });
        un("countl_zero", "op", [](V a) { return avel::countl_zero(a); });
        un("countl_one", "op", [](V a) { return avel::countl_one(a); });
        un("countr_zero", "op", [](V a) { return avel::countr_zero(a); });
        un("countr_one", "op", [](V a) { return avel::countr_one(a); });
        unsigned_bitfn();
        un("byteswap", "op", [](V a) { return avel::byteswap(a); });
        un_pred("has_single_bit", "op", [](V a) { return avel::has_single_bit(a); });
        countl_sign_if();
    }

    //--------------------------------------------------------------------
    // C07
    //--------------------------------------------------------------------
    template<class VV = V>
    typename std::enable_if<std::is_signed<typename VV::scalar>::value>::type signed_select() {
        un("abs", "op", [](V a) { return avel::abs(a); });
        // negate(m, x)
        set_label(tn, "negate");
        unsigned phase = 0;
        for_single_batches([&](const A& a) {
            std::array<bool, N> mb;
            for (unsigned j = 0; j < N; ++j) mb[j] = ((j + phase) % 3) != 0;
            ++phase;
            A r{};
            int sg = guarded([&] { r = avel::to_array(avel::negate(M(mb), V(a))); });
            for (unsigned j = 0; j < N; ++j)
                emit(Fact("negate", K).num("m", mb[j]).val("a", a[j]).val("r", sg ? S(0) : r[j]).signal(sg), tn, int(j), "op");
        });
    }
    template<class VV = V>
    typename std::enable_if<!std::is_signed<typename VV::scalar>::value>::type signed_select() {}

    void select() {
        bin("min", "op", [](V a, V b) { return avel::min(a, b); });
        bin("max", "op", [](V a, V b) { return avel::max(a, b); });
        bin("min", "minmax", [](V a, V b) { return avel::minmax(a, b)[0]; });
        bin("max", "minmax", [](V a, V b) { return avel::minmax(a, b)[1]; });
        bin("average", "op", [](V a, V b) { return avel::average(a, b); });
        bin("midpoint", "op", [](V a, V b) { return avel::midpoint(a, b); });
        un("neg_abs", "op", [](V a) { return avel::neg_abs(a); });
        signed_select();

        // blend / keep / clear / set_bits with varying mask patterns
        unsigned phase = 0;
        set_label(tn, "blend");
        for_pair_batches([&](const A& a, const A& b) {
            std::array<bool, N> mb;
            for (unsigned j = 0; j < N; ++j) mb[j] = (((j * 7 + phase) >> (phase % 3)) & 1) != 0;
            ++phase;
            A rb{}, rk{}, rc{}, rs{};
            int sg = guarded([&] {
                M m(mb);
                rb = avel::to_array(avel::blend(m, V(a), V(b)));
                rk = avel::to_array(avel::keep(m, V(a)));
                rc = avel::to_array(avel::clear(m, V(a)));
                rs = avel::to_array(avel::set_bits(m));
            });
            for (unsigned j = 0; j < N; ++j) {
                S z = S(0);
                emit(Fact("blend", K).num("m", mb[j]).val("a", a[j]).val("b", b[j]).val("r", sg ? z : rb[j]).signal(sg), tn, int(j), "op");
                emit(Fact("keep", K).num("m", mb[j]).val("a", a[j]).val("r", sg ? z : rk[j]).signal(sg), tn, int(j), "op");
                emit(Fact("clear", K).num("m", mb[j]).val("a", a[j]).val("r", sg ? z : rc[j]).signal(sg), tn, int(j), "op");
                emit(Fact("set_bits", K).num("m", mb[j]).val("r", sg ? z : rs[j]).signal(sg), tn, int(j), "op");
            }
        });

        // clamp(x, lo, hi): lo/hi from the pair list, x from a rotated copy
        set_label(tn, "clamp");
        std::size_t rot = 0;
        for_pair_batches([&](const A& a, const A& b) {
            A x, lo, hi, r{};
            for (unsigned j = 0; j < N; ++j) {
                lo[j] = a[j] < b[j] ? a[j] : b[j];
                hi[j] = a[j] < b[j] ? b[j] : a[j];
                const std::pair<S, S>& p = P[(rot * 31 + j * 17) % P.size()];
                x[j] = (rot & 1) ? p.first : p.second;
            }
            ++rot;
            opaque(x);
            int sg = guarded([&] { r = avel::to_array(avel::clamp(V(x), V(lo), V(hi))); });
            for (unsigned j = 0; j < N; ++j)
                emit(Fact("clamp", K).val("a", x[j]).val("b", lo[j]).val("c", hi[j]).val("r", sg ? S(0) : r[j]).signal(sg), tn, int(j), "op");
        });
    }
};

//------------------------------------------------------------------------
// scalar overloads (C16): the same facts, provenance "s<bits><kind>"
//------------------------------------------------------------------------
template<class T>
struct SDrv {
    static constexpr char K = kind_of<T>::value;
    static constexpr int W = int(sizeof(T) * 8);
    const char* tn;
    std::vector<std::pair<T, T>> P;
    std::vector<T> U1;
    SDrv(const char* name, std::uint64_t seed) : tn(name) {
        Rng r(seed * 77 + sizeof(T));
        P = pairs<T>(r, g_tier ? 20000 : 1500);
        U1 = singles<T>(r, g_tier ? 20000 : 1500);
    }
    template<class F>
    void un(const char* op, F f) {
        set_label(tn, op);
        for (T a : U1) {
            T r = T(0);
            T ao = a;
            opaque(ao);
            int sg = guarded([&] { r = T(f(ao)); });
            emit(Fact(op, K).val("a", a).val("r", sg ? T(0) : r).signal(sg), tn, 0, "scalar");
        }
    }
    template<class F>
    void bin(const char* op, F f) {
        set_label(tn, op);
        for (const std::pair<T, T>& p : P) {
            T r = T(0);
            T ao = p.first, bo = p.second;
            opaque(ao);
            opaque(bo);
            int sg = guarded([&] { r = T(f(ao, bo)); });
            emit(Fact(op, K).val("a", p.first).val("b", p.second).val("r", sg ? T(0) : r).signal(sg), tn, 0, "scalar");
        }
    }
    template<class TT = T>
    typename std::enable_if<std::is_signed<TT>::value>::type signed_bitfn() {
        un("countl_sign", [](T a) { return avel::countl_sign(a); });
    }
    template<class TT = T>
    typename std::enable_if<!std::is_signed<TT>::value>::type signed_bitfn() {}

    template<class TT = T>
    typename std::enable_if<!std::is_signed<TT>::value>::type unsigned_bitfn() {
        un("bit_width", [](T a) { return avel::bit_width(a); });
        un("bit_floor", [](T a) { return avel::bit_floor(a); });
        un("bit_ceil", [](T a) { return avel::bit_ceil(a); });
    }
    template<class TT = T>
    typename std::enable_if<std::is_signed<TT>::value>::type unsigned_bitfn() {}

    void bitfn() {
        un("popcount", [](T a) { return avel::popcount(a); });
        un("countl_zero", [](T a) { return avel::countl_zero(a); });
        un("countl_one", [](T a) { return avel::countl_one(a); });
        un("countr_zero", [](T a) { return avel::countr_zero(a); });
        un("countr_one", [](T a) { return avel::countr_one(a); });
        unsigned_bitfn();
        un("byteswap", [](T a) { return avel::byteswap(a); });
        set_label(tn, "has_single_bit");
        for (T a : U1) {
            bool r = false;
            T ao = a;
            opaque(ao);
            int sg = guarded([&] { r = avel::has_single_bit(ao); });
            emit(Fact("has_single_bit", K).val("a", a).num("r", sg ? 0 : int(r)).signal(sg), tn, 0, "scalar");
        }
        signed_bitfn();
        literal_bitfn();
    }

    // The same functions on *compile-time constant* arguments: the optimiser may
    // fold the call, and an implementation that relies on undefined behaviour
    // (a shift by the full width, say) can fold to a different value than it
    // computes at run time.
#define VH_LIT(OP, VALUE)                                                              \
    {                                                                                  \
        T r = T(0);                                                                    \
        int sg = guarded([&] { r = T(avel::OP(T(VALUE))); });                          \
        emit(Fact(#OP, K).val("a", T(VALUE)).val("r", sg ? T(0) : r).signal(sg), tn, 0, "scalar_literal"); \
    }
#define VH_LITS(OP)                                                                    \
    VH_LIT(OP, 0) VH_LIT(OP, 1) VH_LIT(OP, 2) VH_LIT(OP, 3) VH_LIT(OP, 4) VH_LIT(OP, 5) VH_LIT(OP, 127) VH_LIT(OP, 128)       \
    VH_LIT(OP, std::numeric_limits<T>::max()) VH_LIT(OP, std::numeric_limits<T>::max() - 1)                                  \
    VH_LIT(OP, std::numeric_limits<T>::max() / 2) VH_LIT(OP, std::numeric_limits<T>::max() / 2 + 1)                          \
    VH_LIT(OP, std::numeric_limits<T>::max() / 2 + 2)
    template<class TT = T>
    typename std::enable_if<!std::is_signed<TT>::value>::type literal_bitfn() {
        set_label(tn, "bitfn_literal");
        VH_LITS(popcount) VH_LITS(countl_zero) VH_LITS(countl_one) VH_LITS(countr_zero) VH_LITS(countr_one)
        VH_LITS(bit_width) VH_LITS(bit_floor) VH_LITS(bit_ceil) VH_LITS(byteswap)
    }
    template<class TT = T>
    typename std::enable_if<std::is_signed<TT>::value>::type literal_bitfn() {
        set_label(tn, "bitfn_literal");
        VH_LITS(popcount) VH_LITS(countl_zero) VH_LITS(countl_one) VH_LITS(countr_zero) VH_LITS(countr_one) VH_LITS(byteswap)
        VH_LITS(countl_sign)
    }

    template<class TT = T>
    typename std::enable_if<std::is_signed<TT>::value>::type signed_select() {
        un("abs", [](T a) { return avel::abs(a); });
        set_label(tn, "negate");
        unsigned ph = 0;
        for (T a : U1) {
            bool m = (ph++ % 3) != 0;
            T r = 0;
            T ao = a;
            opaque(ao);
            int sg = guarded([&] { r = avel::negate(m, ao); });
            emit(Fact("negate", K).num("m", m).val("a", a).val("r", sg ? T(0) : r).signal(sg), tn, 0, "scalar");
        }
    }
    template<class TT = T>
    typename std::enable_if<!std::is_signed<TT>::value>::type signed_select() {}

    void select() {
        bin("min", [](T a, T b) { return avel::min(a, b); });
        bin("max", [](T a, T b) { return avel::max(a, b); });
        bin("min", [](T a, T b) { return avel::minmax(a, b)[0]; });
        bin("max", [](T a, T b) { return avel::minmax(a, b)[1]; });
        bin("average", [](T a, T b) { return avel::average(a, b); });
        bin("midpoint", [](T a, T b) { return avel::midpoint(a, b); });
        un("neg_abs", [](T a) { return avel::neg_abs(a); });
        signed_select();
        set_label(tn, "blend");
        unsigned ph = 0;
        for (const std::pair<T, T>& p : P) {
            bool m = ((ph++ >> 1) & 1) != 0;
            T rb = 0, rk = 0, rc = 0, rs = 0;
            T ao = p.first, bo = p.second;
            opaque(ao);
            opaque(bo);
            int sg = guarded([&] {
                rb = avel::blend(m, ao, bo);
                rk = avel::keep(m, ao);
                rc = avel::clear(m, ao);
                rs = avel::set_bits<T>(m);
            });
            T z = 0;
            emit(Fact("blend", K).num("m", m).val("a", p.first).val("b", p.second).val("r", sg ? z : rb).signal(sg), tn, 0, "scalar");
            emit(Fact("keep", K).num("m", m).val("a", p.first).val("r", sg ? z : rk).signal(sg), tn, 0, "scalar");
            emit(Fact("clear", K).num("m", m).val("a", p.first).val("r", sg ? z : rc).signal(sg), tn, 0, "scalar");
            emit(Fact("set_bits", K).num("m", m).val("r", sg ? z : rs).signal(sg), tn, 0, "scalar");
        }
        set_label(tn, "clamp");
        std::size_t rot = 0;
        for (const std::pair<T, T>& p : P) {
            T lo = p.first < p.second ? p.first : p.second;
            T hi = p.first < p.second ? p.second : p.first;
            const std::pair<T, T>& q = P[(rot * 31) % P.size()];
            T x = (rot & 1) ? q.first : q.second;
            ++rot;
            T r = 0;
            opaque(x);
            int sg = guarded([&] { r = avel::clamp(x, lo, hi); });
            emit(Fact("clamp", K).val("a", x).val("b", lo).val("c", hi).val("r", sg ? T(0) : r).signal(sg), tn, 0, "scalar");
        }
    }

    // mixed-signedness comparisons (signed T against its unsigned counterpart, both orders)
    template<class TT = T>
    typename std::enable_if<std::is_signed<TT>::value>::type mixcmp() {
        typedef typename std::make_unsigned<T>::type U;
        set_label(tn, "mixcmp");
        for (const std::pair<T, T>& p : P) {
            T a = p.first;
            U b = U(p.second);
            opaque(a);
            opaque(b);
            bool r[12] = {};
            int sg = guarded([&] {
                r[0] = avel::cmp_equal(a, b); r[1] = avel::cmp_not_equal(a, b); r[2] = avel::cmp_less(a, b);
                r[3] = avel::cmp_less_equal(a, b); r[4] = avel::cmp_greater(a, b); r[5] = avel::cmp_greater_equal(a, b);
                r[6] = avel::cmp_equal(b, a); r[7] = avel::cmp_not_equal(b, a); r[8] = avel::cmp_less(b, a);
                r[9] = avel::cmp_less_equal(b, a); r[10] = avel::cmp_greater(b, a); r[11] = avel::cmp_greater_equal(b, a);
            });
            static const char* names[6] = {"cmp_equal", "cmp_not_equal", "cmp_less", "cmp_less_equal", "cmp_greater", "cmp_greater_equal"};
            for (int i = 0; i < 6; ++i) {
                Fact f1(names[i], 'i');
                f1.val("a", p.first).val("b", U(p.second)).num("r", sg ? 0 : r[i]).signal(sg);
                emit_kb(f1, 'u');
                Fact f2(names[i], 'u');
                f2.val("a", U(p.second)).val("b", p.first).num("r", sg ? 0 : r[6 + i]).signal(sg);
                emit_kb(f2, 'i');
            }
        }
    }
    template<class TT = T>
    typename std::enable_if<!std::is_signed<TT>::value>::type mixcmp() {}
    void emit_kb(Fact& f, char kb) {
        // the second operand's kind travels as a one-byte field
        f.val("kbv", kb);
        emit(f, tn, 0, "scalar");
    }

    void bits() {  // scalar rotations
        std::vector<T> vals = (sizeof(T) == 1 || g_tier) ? U1 : lattice<T>();
        std::vector<long long> rot;
        for (int s = 0; s <= 2 * W + 1; ++s) rot.push_back(s);
        const long long big[] = {3 * W + 5, 1000003, (1ll << 40) + 5, LLONG_MAX, -1, -W, -W - 1, -7, LLONG_MIN, LLONG_MIN + 3};
        for (long long s : big) rot.push_back(s);
        for (int dir = 0; dir < 2; ++dir) {
            const char* op = dir ? "rotr" : "rotl";
            set_label(tn, op);
            for (long long s : rot)
                for (T a : vals) {
                    T r = 0;
                    T ao = a;
                    long long so = s;
                    opaque(ao);
                    opaque(so);
                    int sg = guarded([&] { r = dir ? avel::rotr(ao, so) : avel::rotl(ao, so); });
                    emit(Fact(op, K).val("a", a).val("s", std::int64_t(s)).val("r", sg ? T(0) : r).signal(sg), tn, 0, "scalar");
                }
        }
    }
};

int main(int argc, char** argv) {
    if (argc < 5) {
        std::fprintf(stderr, "usage: %s <family> <quick|thorough> <seed> <out-prefix>\n", argv[0]);
        return 2;
    }
    std::string family = argv[1];
    g_tier = std::strcmp(argv[2], "thorough") == 0;
    std::uint64_t seed = std::strtoull(argv[3], nullptr, 10);
    if (!open_sink(argv[4])) return 2;
    install_handlers();

#define RUN_V(X)                                                                 \
    {                                                                            \
        Drv<avel::vec##X> d(#X, seed);                                           \
        if (family == "arith") d.arith();                                        \
        else if (family == "cmp") d.compare();                                   \
        else if (family == "bits") d.bits();                                     \
        else if (family == "div") d.division();                                  \
        else if (family == "bitfn") d.bitfn();                                   \
        else if (family == "select") d.select();                                 \
        else if (family == "tomask") d.tomask();                                 \
        else if (family == "sweep32") d.sweep32();                               \
        else if (family.compare(0, 8, "sweep16_") == 0) d.sweep16(family.substr(8)); \
    }
    if (!std::getenv("VH_SCALAR_ONLY")) {
        VH_INT_TYPES(RUN_V)
    }

#define RUN_S(T, NAME)                                                           \
    {                                                                            \
        SDrv<T> d(NAME, seed);                                                   \
        if (family == "bitfn") d.bitfn();                                        \
        else if (family == "select") d.select();                                 \
        else if (family == "bits") d.bits();                                     \
        else if (family == "mixcmp") d.mixcmp();                                 \
    }
    VH_INT_SCALARS(RUN_S)

    close_sink();
    return 0;
}
