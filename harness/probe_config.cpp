// Configuration probe (C19): compiled once per macro set (explicitly named, or
// AVEL_AUTO_DETECT with the matching compiler flags); reports what it observes.
// The set of macros named on the command line is passed in VH_NAMED (a string).
#include <avel/Avel.hpp>
#include <avel/Aligned_allocator.hpp>

#include <cstdio>
#include <cstring>
#include <string>
#include <type_traits>

template<class T, std::uint32_t N, class = void>
struct complete : std::false_type {};
template<class T, std::uint32_t N>
struct complete<T, N, decltype(void(sizeof(avel::Vector<T, N>)))> : std::true_type {};

static std::string types, maxw, natw;
static bool layout_ok = true;

template<class T, std::uint32_t N>
static typename std::enable_if<complete<T, N>::value>::type one(const char* t) {
    typedef avel::Vector<T, N> V;
    typedef avel::Vector_mask<T, N> M;
    types += std::string(types.empty() ? "" : ",") + "[\"" + t + "\"," + std::to_string(N) + "]";
    if (sizeof(V) != N * sizeof(T)) layout_ok = false;
    if (!std::is_trivially_copyable<V>::value) layout_ok = false;
    if (!std::is_trivial<M>::value) layout_ok = false;
    if (V::width != N || M::width != N) layout_ok = false;
}
template<class T, std::uint32_t N>
static typename std::enable_if<!complete<T, N>::value>::type one(const char*) {}

// width named by an alias, 0 if the alias names a type that does not exist
template<class V, class = void>
struct alias_width { static constexpr unsigned value = 0; };
template<class V>
struct alias_width<V, decltype(void(sizeof(V)))> { static constexpr unsigned value = V::width; };

template<class T>
static void elem(const char* t, unsigned mx, unsigned nat) {
    one<T, 1>(t); one<T, 2>(t); one<T, 4>(t); one<T, 8>(t); one<T, 16>(t); one<T, 32>(t); one<T, 64>(t);
    maxw += std::string(maxw.empty() ? "" : ",") + "[\"" + t + "\"," + std::to_string(mx) + "]";
    natw += std::string(natw.empty() ? "" : ",") + "[\"" + t + "\"," + std::to_string(nat) + "]";
}

int main() {
    std::string defined;
#define D(m) defined += std::string(defined.empty() ? "" : ",") + "\"" #m "\"";
#ifdef AVEL_AVX10_2
    D(AVX10_2)
#endif
#ifdef AVEL_AVX10_1
    D(AVX10_1)
#endif
#ifdef AVEL_GFNI
    D(GFNI)
#endif
#ifdef AVEL_AVX512BITALG
    D(AVX512BITALG)
#endif
#ifdef AVEL_AVX512VBMI2
    D(AVX512VBMI2)
#endif
#ifdef AVEL_AVX512VBMI
    D(AVX512VBMI)
#endif
#ifdef AVEL_AVX512VPOPCNTDQ
    D(AVX512VPOPCNTDQ)
#endif
#ifdef AVEL_AVX512BW
    D(AVX512BW)
#endif
#ifdef AVEL_AVX512VL
    D(AVX512VL)
#endif
#ifdef AVEL_AVX512DQ
    D(AVX512DQ)
#endif
#ifdef AVEL_AVX512CD
    D(AVX512CD)
#endif
#ifdef AVEL_AVX512F
    D(AVX512F)
#endif
#ifdef AVEL_FMA
    D(FMA)
#endif
#ifdef AVEL_AVX2
    D(AVX2)
#endif
#ifdef AVEL_AVX
    D(AVX)
#endif
#ifdef AVEL_SSE4_2
    D(SSE4_2)
#endif
#ifdef AVEL_SSE4_1
    D(SSE4_1)
#endif
#ifdef AVEL_SSSE3
    D(SSSE3)
#endif
#ifdef AVEL_SSE3
    D(SSE3)
#endif
#ifdef AVEL_SSE2
    D(SSE2)
#endif
#ifdef AVEL_SSE
    D(SSE)
#endif
#ifdef AVEL_BMI2
    D(BMI2)
#endif
#ifdef AVEL_BMI
    D(BMI)
#endif
#ifdef AVEL_PREFETCH
    D(PREFETCH)
#endif
#ifdef AVEL_LZCNT
    D(LZCNT)
#endif
#ifdef AVEL_POPCNT
    D(POPCNT)
#endif
#ifdef AVEL_X86
    D(X86)
#endif
    elem<std::uint8_t>("8u", alias_width<avel::vecMx8u>::value, alias_width<avel::vecNx8u>::value);
    elem<std::int8_t>("8i", alias_width<avel::vecMx8i>::value, alias_width<avel::vecNx8i>::value);
    elem<std::uint16_t>("16u", alias_width<avel::vecMx16u>::value, alias_width<avel::vecNx16u>::value);
    elem<std::int16_t>("16i", alias_width<avel::vecMx16i>::value, alias_width<avel::vecNx16i>::value);
    elem<std::uint32_t>("32u", alias_width<avel::vecMx32u>::value, alias_width<avel::vecNx32u>::value);
    elem<std::int32_t>("32i", alias_width<avel::vecMx32i>::value, alias_width<avel::vecNx32i>::value);
    elem<std::uint64_t>("64u", alias_width<avel::vecMx64u>::value, alias_width<avel::vecNx64u>::value);
    elem<std::int64_t>("64i", alias_width<avel::vecMx64i>::value, alias_width<avel::vecNx64i>::value);
    elem<float>("32f", alias_width<avel::vecMx32f>::value, alias_width<avel::vecNx32f>::value);
    elem<double>("64f", alias_width<avel::vecMx64f>::value, alias_width<avel::vecNx64f>::value);
    // the allocator must be usable too
    avel::Aligned_allocator<int, 64> al;
    int* p = al.allocate(3);
    bool alloc_ok = p && (reinterpret_cast<std::uintptr_t>(p) % 64 == 0);
    al.deallocate(p, 3);
    std::printf("\"defined\":[%s],\"types\":[%s],\"maxw\":[%s],\"natw\":[%s],\"layout_ok\":%d", defined.c_str(), types.c_str(), maxw.c_str(),
                natw.c_str(), int(layout_ok && alloc_ok));
    return 0;
}
