// Denominator driver (C14 scalar, C15 vector): object histories
//   new(d) ; [bcast] ; value ; (div | / % | /= %=)*
// One ndjson trace per type: <prefix>.<type>.den   (family "denom")
// usage: drv_denom denom <tier> <seed> <out-prefix>
#include "common/inputs.hpp"
#include "common/types.hpp"
#include "common/vh.hpp"

#include <limits>

using namespace vh;

static std::string flat(const void* p, std::size_t n) {
    const unsigned char* c = static_cast<const unsigned char*>(p);
    std::string s = "[";
    char b[8];
    for (std::size_t i = 0; i < n; ++i) {
        std::snprintf(b, sizeof(b), i ? ",%u" : "%u", unsigned(c[i]));
        s += b;
    }
    return s + "]";
}

// divisors: chosen from the case analysis (1, -1, MIN, MAX, powers of two and
// neighbours) plus lattice / random
template<class T>
static std::vector<T> divisors(Rng& r) {
    std::vector<T> v;
    if (sizeof(T) == 1) {
        for (int i = 1; i < 256; ++i) v.push_back(T(i));
        return v;
    }
    std::vector<T> l = lattice<T>();
    for (T x : l)
        if (x != 0) v.push_back(x);
    const T extra[] = {T(3), T(5), T(7), T(10), T(11), T(13), T(100), T(1000), T(641), T(-3), T(-7), T(-10), T(-1000)};
    for (T x : extra)
        if (x != 0) v.push_back(x);
    for (int i = 0; i < (g_tier ? 400 : 40); ++i) {
        T x = random_value<T>(r);
        if (x != 0) v.push_back(x);
    }
    std::sort(v.begin(), v.end());
    v.erase(std::unique(v.begin(), v.end()), v.end());
    return v;
}

// numerators that are adversarial for a given divisor
template<class T>
static std::vector<T> numerators(T d, Rng& r) {
    typedef typename std::make_unsigned<T>::type U;
    std::vector<T> v;
    if (sizeof(T) == 1) {
        for (int i = 0; i < 256; ++i) v.push_back(T(i));
        return v;
    }
    const T mn = std::numeric_limits<T>::min(), mx = std::numeric_limits<T>::max();
    const T base[] = {T(0), T(1), T(2), T(-1), T(-2), mn, T(mn + 1), mx, T(mx - 1), T(mx / 2), T(mx / 2 + 1), d, T(d - 1), T(d + 1), T(U(d) * 2), T(U(d) * 3 - 1)};
    for (T x : base) v.push_back(x);
    // the multiples of d nearest both ends of the range and their neighbours
    if (!(std::is_signed<T>::value && d == T(-1))) {
        T qmx = T(mx / d), qmn = T(mn / d);
        T m1 = T(U(qmx) * U(d)), m2 = T(U(qmn) * U(d));
        const T near[] = {m1, T(m1 - 1), T(m1 + 1), m2, T(m2 - 1), T(m2 + 1)};
        for (T x : near) v.push_back(x);
    }
    for (int k = 0; k < int(sizeof(T) * 8); k += (g_tier ? 1 : 3)) {
        v.push_back(T(U(1) << k));
        v.push_back(T((U(1) << k) - 1));
        v.push_back(T(U(0) - (U(1) << k)));
    }
    for (int i = 0; i < (g_tier ? 60 : 12); ++i) v.push_back(random_value<T>(r));
    // Carry chains of a limb-wise multiply-high: division by an invariant is a multiply-high of n by a magic
    // multiplier m ~ 2^(W+l)/d; when that is built from half-width partial products, a dropped carry only shows for
    // numerators whose middle partial sum  hi(m)*lo(n) + hi(n)*lo(m)  lands just below a power of 2^W.  Such n are
    // constructed here for the multipliers of the usual round-up and round-down schemes (if the library uses another
    // scheme these are merely more numerators).
    if (sizeof(T) >= 4) {
        typedef unsigned __int128 U2;
        const int Wb = int(sizeof(T) * 8), H = Wb / 2;
        const U mag = (std::is_signed<T>::value && d < 0) ? U(U(0) - U(d)) : U(d);
        if (mag > 1) {
            int l = 0;
            while ((U2(1) << l) < mag) ++l;
            const U2 full = (U2(1) << (Wb + l)) / mag;
            const U ms[3] = {U(full), U(full + 1), U(((U2(1) << (Wb + l - 1)) / mag) + 1)};
            const U hmask = (U(1) << H) - 1;
            for (U m : ms) {
                const U A = m >> H, B = m & hmask;
                if (A == 0) continue;
                for (int t = 0; t < (g_tier ? 24 : 8); ++t) {
                    const U h = U(r.next()) & hmask;
                    const U target = U(U(0) - U(h * B)) - U(t & 1 ? 0 : (r.next() & hmask));   // middle sum wraps to just below 0
                    const U lo = (target / A) & hmask;
                    U n = U(h << H) | lo;
                    if (std::is_signed<T>::value) n &= U(~U(0)) >> 1;
                    v.push_back(T(n));
                    v.push_back(T(n + 1));
                }
            }
        }
    }
    return v;
}

template<class T>
static bool undefined_pair(T n, T d) {
    return d == 0 || (std::is_signed<T>::value && n == std::numeric_limits<T>::min() && d == T(-1));
}

// One history file per type, split at object boundaries into parts of bounded
// length so that TLC can validate them in parallel (objects are independent).
struct Out {
    FILE* f;
    int next_id;
    std::string stem;
    int part;
    explicit Out(const std::string& path_stem) : f(nullptr), next_id(1), stem(path_stem), part(0) { open(); }
    void open() {
        if (f) std::fclose(f);
        f = std::fopen((stem + "." + std::to_string(part) + ".den").c_str(), "w");
        if (!f) std::exit(2);
    }
    // call only where no later event refers to an earlier object
    void boundary() {
        if (std::ftell(f) > (3 << 20)) {
            ++part;
            open();
        }
    }
    ~Out() { std::fclose(f); }
};

// ------------------------------------------------------------------ scalar
template<class T>
static void scalar_history(const char* tn, const std::string& prefix, std::uint64_t seed) {
    Out out(prefix + "." + tn);
    const char K = kind_of<T>::value;
    const unsigned W = sizeof(T);
    Rng r(seed * 31 + W * 2 + (K == 'i'));
    set_label(tn, "denominator");
    unsigned shift_tick = 0;
    for (T d : divisors<T>(r)) {
        typedef avel::Denominator<T> D;
        out.boundary();
        alignas(D) unsigned char storage[sizeof(D)];
        D* obj = nullptr;
        T dd = d;
        opaque(dd);
        int sg = guarded([&] { obj = new (storage) D(dd); });
        int id = out.next_id++;
        std::fprintf(out.f, "{\"e\":\"new\",\"id\":%d,\"k\":\"%c\",\"w\":%u,\"d\":%s,\"sig\":\"%s\"}\n", id, K, W, flat(&d, W).c_str(), signame(sg));
        if (sg) continue;
        T val = T(0);
        sg = guarded([&] { val = obj->value(); });
        std::fprintf(out.f, "{\"e\":\"value\",\"id\":%d,\"v\":%s,\"sig\":\"%s\"}\n", id, flat(&val, W).c_str(), signame(sg));
        for (T n : numerators<T>(d, r)) {
            if (undefined_pair(n, d)) continue;   // MIN / -1 is outside the property
            T nn = n;
            opaque(nn);
            T q1 = 0, r1 = 0, q2 = 0, r2 = 0, q3 = 0, r3 = 0;
            int s1 = guarded([&] { auto x = div(nn, *obj); q1 = x.quot; r1 = x.rem; });
            int s2 = guarded([&] { q2 = nn / *obj; r2 = nn % *obj; });
            int s3 = guarded([&] { T a = nn, b = nn; a /= *obj; b %= *obj; q3 = a; r3 = b; });
            std::fprintf(out.f, "{\"e\":\"div\",\"id\":%d,\"form\":\"div\",\"n\":%s,\"q\":%s,\"r\":%s,\"sig\":\"%s\"}\n", id, flat(&n, W).c_str(), flat(&q1, W).c_str(), flat(&r1, W).c_str(), signame(s1));
            std::fprintf(out.f, "{\"e\":\"div\",\"id\":%d,\"form\":\"ops\",\"n\":%s,\"q\":%s,\"r\":%s,\"sig\":\"%s\"}\n", id, flat(&n, W).c_str(), flat(&q2, W).c_str(), flat(&r2, W).c_str(), signame(s2));
            std::fprintf(out.f, "{\"e\":\"div\",\"id\":%d,\"form\":\"eq\",\"n\":%s,\"q\":%s,\"r\":%s,\"sig\":\"%s\"}\n", id, flat(&n, W).c_str(), flat(&q3, W).c_str(), flat(&r3, W).c_str(), signame(s3));
        }
        // A denominator is a value: a copy, and an existing object assigned from another one, divide like their
        // source ("div(n, Denominator<T>(d))" does not say how the object got there).  The previous object of this
        // history (another divisor, often of the other sign) is overwritten by assignment and then used.
        {
            alignas(D) static unsigned char prev_store[sizeof(D)];
            static D* prev = nullptr;
            static int prev_tag = 0;
            if (prev_tag != int(sizeof(T) * 2 + (K == 'i'))) { prev = nullptr; prev_tag = int(sizeof(T) * 2 + (K == 'i')); }
            if (prev) {
                int sg5 = guarded([&] { *prev = *obj; });                    // copy assignment over an older divisor
                int idp = out.next_id++;
                std::fprintf(out.f, "{\"e\":\"copy\",\"id\":%d,\"from\":%d,\"form\":\"assign\",\"sig\":\"%s\"}\n", idp, id, signame(sg5));
                if (!sg5) {
                    T v5 = T(0);
                    sg5 = guarded([&] { v5 = prev->value(); });
                    std::fprintf(out.f, "{\"e\":\"value\",\"id\":%d,\"v\":%s,\"sig\":\"%s\"}\n", idp, flat(&v5, W).c_str(), signame(sg5));
                    std::vector<T> ns = numerators<T>(d, r);
                    for (std::size_t i = 0; i < ns.size(); i += (ns.size() / 16 + 1)) {
                        T n = ns[i];
                        if (undefined_pair(n, d)) continue;
                        opaque(n);
                        T q = 0, rem = 0, q2 = 0, r2 = 0;
                        int s6 = guarded([&] { auto x = div(n, *prev); q = x.quot; rem = x.rem; });
                        int s7 = guarded([&] { T a = n, b = n; a /= *prev; b %= *prev; q2 = a; r2 = b; });
                        std::fprintf(out.f, "{\"e\":\"div\",\"id\":%d,\"form\":\"div\",\"n\":%s,\"q\":%s,\"r\":%s,\"sig\":\"%s\"}\n", idp, flat(&n, W).c_str(), flat(&q, W).c_str(), flat(&rem, W).c_str(), signame(s6));
                        std::fprintf(out.f, "{\"e\":\"div\",\"id\":%d,\"form\":\"eq\",\"n\":%s,\"q\":%s,\"r\":%s,\"sig\":\"%s\"}\n", idp, flat(&n, W).c_str(), flat(&q2, W).c_str(), flat(&r2, W).c_str(), signame(s7));
                    }
                }
            }
            {   // copy construction (also how a denominator is passed by value)
                alignas(D) unsigned char cstore[sizeof(D)];
                D* cp = nullptr;
                int sg8 = guarded([&] { cp = new (cstore) D(*obj); });
                int idc = out.next_id++;
                std::fprintf(out.f, "{\"e\":\"copy\",\"id\":%d,\"from\":%d,\"form\":\"ctor\",\"sig\":\"%s\"}\n", idc, id, signame(sg8));
                if (!sg8) {
                    std::vector<T> ns = numerators<T>(d, r);
                    for (std::size_t i = 0; i < ns.size(); i += (ns.size() / 6 + 1)) {
                        T n = ns[i];
                        if (undefined_pair(n, d)) continue;
                        opaque(n);
                        T q = 0, rem = 0;
                        int s6 = guarded([&] { auto x = div(n, *cp); q = x.quot; rem = x.rem; });
                        std::fprintf(out.f, "{\"e\":\"div\",\"id\":%d,\"form\":\"div\",\"n\":%s,\"q\":%s,\"r\":%s,\"sig\":\"%s\"}\n", idc, flat(&n, W).c_str(), flat(&q, W).c_str(), flat(&rem, W).c_str(), signame(s6));
                    }
                }
            }
            // remember a copy of this object for the next divisor's assignment (every other divisor, so that signs mix)
            if (!prev || (shift_tick & 1)) {
                int sg9 = guarded([&] { prev = new (prev_store) D(*obj); });
                if (sg9) prev = nullptr;
            }
        }
        // Beyond C14 (events flagged "x":1 are reported as EXTRA, never as a violation): operator<< / operator>> of a
        // denominator multiply / divide the divisor by 2^s; only amounts that keep the divisor exact are issued
        // (the documentation clamps larger ones).
        if (++shift_tick % (g_tier ? 1 : 3) == 0) {
            typedef typename std::make_unsigned<T>::type UT;
            int room_l = 0, room_r = 0;
            {
                T probe = d;
                while (room_l < int(8 * W) && T(T(UT(probe) << 1) >> 1) == probe && T(UT(probe) << 1) != 0) { probe = T(UT(probe) << 1); ++room_l; }
                UT u = UT(d);
                while (room_r < int(8 * W) && (u & 1) == 0) { u >>= 1; ++room_r; }
            }
            for (int dir = 0; dir < 2; ++dir) {
                int room = dir ? room_r : room_l;
                if (room == 0) continue;
                int s = 1 + int(r.next() % unsigned(room));
                T sv = T(s);
                opaque(sv);
                alignas(D) unsigned char st2[sizeof(D)];
                D* sh = nullptr;
                int sg2 = guarded([&] { sh = new (st2) D(dir ? (*obj >> sv) : (*obj << sv)); });
                int id2 = out.next_id++;
                std::fprintf(out.f, "{\"e\":\"dshift\",\"id\":%d,\"from\":%d,\"o\":\"%s\",\"s\":%s,\"x\":1,\"sig\":\"%s\"}\n", id2, id, dir ? "shr" : "shl", flat(&sv, W).c_str(), signame(sg2));
                if (sg2) continue;
                T nd = dir ? T(d >> s) : T(UT(d) << s);
                T v2 = T(0);
                sg2 = guarded([&] { v2 = sh->value(); });
                std::fprintf(out.f, "{\"e\":\"value\",\"id\":%d,\"v\":%s,\"x\":1,\"sig\":\"%s\"}\n", id2, flat(&v2, W).c_str(), signame(sg2));
                std::vector<T> ns = numerators<T>(nd, r);
                for (std::size_t i = 0; i < ns.size(); i += (ns.size() / 24 + 1)) {
                    T n = ns[i];
                    if (undefined_pair(n, nd)) continue;
                    opaque(n);
                    T q = 0, rem = 0;
                    int s4 = guarded([&] { auto x = div(n, *sh); q = x.quot; rem = x.rem; });
                    std::fprintf(out.f, "{\"e\":\"div\",\"id\":%d,\"form\":\"div\",\"n\":%s,\"q\":%s,\"r\":%s,\"x\":1,\"sig\":\"%s\"}\n", id2, flat(&n, W).c_str(), flat(&q, W).c_str(), flat(&rem, W).c_str(), signame(s4));
                }
            }
        }
    }
}

// ------------------------------------------------------------------ vector
template<class V>
struct VDen {
    typedef typename V::scalar T;
    enum { N = V::width, W = sizeof(T) };
    typedef std::array<T, N> A;
    typedef avel::Denominator<V> DV;
    typedef avel::Denominator<T> DS;

    // value() must be callable (it is private in some specialisations: recorded, the spec rejects it)
    template<class D, class = void>
    struct has_value : std::false_type {};
    template<class D>
    struct has_value<D, decltype(void(std::declval<const D&>().value()))> : std::true_type {};

    template<class D = DV>
    static typename std::enable_if<has_value<D>::value>::type value_event(Out& out, int id, D& obj) {
        A val{};
        int sg = guarded([&] { val = avel::to_array(obj.value()); });
        std::fprintf(out.f, "{\"e\":\"value\",\"id\":%d,\"v\":%s,\"sig\":\"%s\"}\n", id, flat(val.data(), N * W).c_str(), signame(sg));
    }
    template<class D = DV>
    static typename std::enable_if<!has_value<D>::value>::type value_event(Out& out, int id, D&) {
        std::fprintf(out.f, "{\"e\":\"value_inaccessible\",\"id\":%d,\"sig\":\"none\"}\n", id);
    }

    static void uses(Out& out, int id, DV& obj, const A& dl, Rng& r, std::size_t stride = 1) {
        // numerators: lane j walks through the adversarial set of its own divisor
        std::vector<std::vector<T>> ns(N);
        std::size_t mx = 0;
        for (unsigned j = 0; j < N; ++j) {
            ns[j] = numerators<T>(dl[j], r);
            if (sizeof(T) == 1) {   // rotate so that lanes differ
                std::rotate(ns[j].begin(), ns[j].begin() + (j * 37) % ns[j].size(), ns[j].end());
            }
            mx = std::max(mx, ns[j].size());
        }
        value_event(out, id, obj);
        for (std::size_t i = 0; i < mx; i += stride) {
            A n;
            bool undef = false;
            for (unsigned j = 0; j < N; ++j) {
                n[j] = ns[j][i % ns[j].size()];
                if (undefined_pair(n[j], dl[j])) undef = true;
            }
            if (undef) {   // replace MIN / -1 lanes: outside the property
                for (unsigned j = 0; j < N; ++j)
                    if (undefined_pair(n[j], dl[j])) n[j] = T(n[j] + 1);
            }
            opaque(n);
            A q1{}, r1{}, q2{}, r2{}, q3{}, r3{};
            int s1 = guarded([&] { auto x = div(V(n), obj); q1 = avel::to_array(x.quot); r1 = avel::to_array(x.rem); });
            int s2 = guarded([&] { q2 = avel::to_array(V(n) / obj); r2 = avel::to_array(V(n) % obj); });
            int s3 = guarded([&] { V a(n), b(n); a /= obj; b %= obj; q3 = avel::to_array(a); r3 = avel::to_array(b); });
            const char* forms[3] = {"div", "ops", "eq"};
            const A* qs[3] = {&q1, &q2, &q3};
            const A* rs[3] = {&r1, &r2, &r3};
            const int ss[3] = {s1, s2, s3};
            for (int f = 0; f < 3; ++f)
                std::fprintf(out.f, "{\"e\":\"div\",\"id\":%d,\"form\":\"%s\",\"n\":%s,\"q\":%s,\"r\":%s,\"sig\":\"%s\"}\n", id, forms[f],
                             flat(n.data(), N * W).c_str(), flat(qs[f]->data(), N * W).c_str(), flat(rs[f]->data(), N * W).c_str(), signame(ss[f]));
        }
    }

    template<class D2 = DV>
    static typename std::enable_if<!std::is_constructible<D2, DS>::value>::type
    broadcast_part(Out& out, const std::vector<T>&, Rng&, char) {
        // the documented constructor Denominator<V>(Denominator<T>) does not exist for this type
        std::fprintf(out.f, "{\"e\":\"bcast_missing\",\"id\":0,\"sig\":\"none\"}\n");
    }
    template<class D2 = DV>
    static typename std::enable_if<std::is_constructible<D2, DS>::value>::type
    broadcast_part(Out& out, const std::vector<T>& D, Rng& r, char K) {
        std::size_t step = g_tier ? 1 : (sizeof(T) == 1 ? 7 : 3);
        for (std::size_t i = 0; i < D.size(); i += step) {
            T d = D[i];
            opaque(d);
            out.boundary();
            alignas(DS) unsigned char s1[sizeof(DS)];
            DS* sobj = nullptr;
            int sg = guarded([&] { sobj = new (s1) DS(d); });
            int sid = out.next_id++;
            std::fprintf(out.f, "{\"e\":\"new\",\"id\":%d,\"k\":\"%c\",\"w\":%u,\"d\":%s,\"sig\":\"%s\"}\n", sid, K, unsigned(W), flat(&d, W).c_str(), signame(sg));
            if (sg) continue;
            alignas(DV) unsigned char s2[sizeof(DV)];
            DV* obj = nullptr;
            sg = guarded([&] { obj = new (s2) DV(*sobj); });
            int id = out.next_id++;
            std::fprintf(out.f, "{\"e\":\"bcast\",\"id\":%d,\"from\":%d,\"N\":%u,\"sig\":\"%s\"}\n", id, sid, unsigned(N), signame(sg));
            if (sg) continue;
            A dl;
            dl.fill(d);
            uses(out, id, *obj, dl, r);
        }
    }

    static void run(const char* tn, const std::string& prefix, std::uint64_t seed) {
        Out out(prefix + "." + tn);
        const char K = kind_of<T>::value;
        Rng r(seed * 131 + W * 2 + (K == 'i') + N * 1000);
        set_label(tn, "denominator");
        std::vector<T> D = divisors<T>(r);
        alignas(DV) static unsigned char prev_store[sizeof(DV)];
        DV* prev = nullptr;
        bool have_prev = false;
        // (a) a different divisor in every lane
        for (std::size_t base = 0; base < D.size(); base += N) {
            A dl;
            for (unsigned j = 0; j < N; ++j) dl[j] = D[(base + j * (N > 1 ? 1 : 0) + (j ? j * 7 : 0)) % D.size()];
            opaque(dl);
            out.boundary();
            alignas(DV) unsigned char storage[sizeof(DV)];
            DV* obj = nullptr;
            int sg = guarded([&] { obj = new (storage) DV(V(dl)); });
            int id = out.next_id++;
            std::fprintf(out.f, "{\"e\":\"new\",\"id\":%d,\"k\":\"%c\",\"w\":%u,\"d\":%s,\"sig\":\"%s\"}\n", id, K, unsigned(W), flat(dl.data(), N * W).c_str(), signame(sg));
            if (sg) continue;
            uses(out, id, *obj, dl, r);
            // a denominator is a value: copy construction, and copy assignment over an object that held other divisors
            {
                alignas(DV) unsigned char cstore[sizeof(DV)];
                DV* cp = nullptr;
                int sg2 = guarded([&] { cp = new (cstore) DV(*obj); });
                int idc = out.next_id++;
                std::fprintf(out.f, "{\"e\":\"copy\",\"id\":%d,\"from\":%d,\"form\":\"ctor\",\"sig\":\"%s\"}\n", idc, id, signame(sg2));
                if (!sg2) uses(out, idc, *cp, dl, r, 16);
                if (have_prev) {
                    sg2 = guarded([&] { *prev = *obj; });
                    int idp = out.next_id++;
                    std::fprintf(out.f, "{\"e\":\"copy\",\"id\":%d,\"from\":%d,\"form\":\"assign\",\"sig\":\"%s\"}\n", idp, id, signame(sg2));
                    if (!sg2) uses(out, idp, *prev, dl, r, 8);
                }
                if (!have_prev || ((base / N) & 1)) {
                    sg2 = guarded([&] { prev = new (prev_store) DV(*obj); });
                    have_prev = sg2 == 0;
                }
            }
        }
        broadcast_part(out, D, r, K);
    }
};

int main(int argc, char** argv) {
    if (argc < 5) return 2;
    g_tier = std::strcmp(argv[2], "thorough") == 0;
    std::uint64_t seed = std::strtoull(argv[3], nullptr, 10);
    std::string prefix = argv[4];
    std::string family = argv[1];
    if (!open_sink(prefix)) return 2;
    install_handlers();
    if (family == "sdenom") {
#define RUN_SD(T, NAME) scalar_history<T>(NAME, prefix, seed);
        VH_INT_SCALARS(RUN_SD)
    } else {
#define RUN_VD(X) VDen<avel::vec##X>::run(#X, prefix, seed);
        VH_INT_TYPES(RUN_VD)
    }
    close_sink();
    return 0;
}
