// Prefetch driver (C20): prefetch_read / prefetch_write for every cache level,
// pointer class (valid, null, misaligned, inside an inaccessible page, straddling
// into it), offset within a cache line and count; typed and untyped overloads.
// Records the signal and whether any byte of the accessible page changed.
// usage: drv_prefetch prefetch <tier> <seed> <out-prefix>
#include "common/inputs.hpp"
#include "common/vh.hpp"

#include <avel/Cache.hpp>
#include <sys/mman.h>
#include <unistd.h>

using namespace vh;

static unsigned char* g_pages;
static const std::size_t PG = 4096;
static unsigned char g_copy[4096];
static int g_timeouts = 0;

template<avel::Cache_level L>
static void level_cases(int lvl) {
    struct PC { const char* name; unsigned char* p; };
    unsigned char* mid = g_pages + PG;
    const PC classes[] = {
        {"valid", mid + 1024}, {"null", nullptr}, {"prot", g_pages + 2 * PG + 128},
        {"prot_before", g_pages + 64}, {"end", mid + PG - 64}, {"low", reinterpret_cast<unsigned char*>(8)},
        // the last cache line of the address space: address arithmetic that wraps must not turn into an endless loop
        {"top", reinterpret_cast<unsigned char*>(~std::uintptr_t(0) - 63)}};
    const std::size_t counts[] = {0, 1, 2, 63, 64, 65, 127, 128, 129, 4095, 4096, 4097, 3 * 4096 + 5,
                                 (std::size_t(1) << 32) - 32, (std::size_t(1) << 32) + 100};   // beyond 32 bits: the call must still return
    for (const PC& pc : classes)
        for (unsigned off = 0; off < 64; off += (g_tier ? 1 : 7))
            for (std::size_t n : counts)
                for (int rw = 0; rw < 2; ++rw)
                    for (int typed = 0; typed < 2; ++typed) {
                        unsigned char* p = pc.p ? pc.p + off : (off ? reinterpret_cast<unsigned char*>(std::uintptr_t(off)) : nullptr);
                        if (typed && n > 4097) continue;
                        if (n > (1u << 20) && (off % 21 != 0 || std::strcmp(pc.name, "valid") != 0)) continue;   // a few long runs only
                        const bool top = std::strcmp(pc.name, "top") == 0;
                        if (top && (n > 4097 || (n + off > 64 && n > 64))) continue;   // stay below the end of the address space
                        const bool watched = n > (1u << 20) || top;
                        if (watched && g_timeouts >= 3) continue;   // three calls that did not return are evidence enough
                        if (watched) alarm(20);                      // watchdog: a hint loop that never terminates
                        std::memcpy(g_copy, mid, PG);
                        const void* vp = p;
                        opaque(vp);
                        std::size_t nn = n;
                        opaque(nn);
                        int sg = guarded([&] {
                            if (!typed) {
                                if (rw) avel::prefetch_write<L>(vp, nn);
                                else avel::prefetch_read<L>(vp, nn);
                            } else {
                                const double* dp = static_cast<const double*>(vp);
                                if (rw) avel::prefetch_write<L, double>(dp, nn);
                                else avel::prefetch_read<L, double>(dp, nn);
                            }
                        });
                        alarm(0);
                        if (sg == SIGALRM) ++g_timeouts;
                        int changed = std::memcmp(g_copy, mid, PG) != 0;
                        char buf[256];
                        std::snprintf(buf, sizeof(buf),
                                      "{\"o\":\"prefetch\",\"k\":\"p\",\"rw\":\"%s\",\"level\":%d,\"typed\":%d,\"pclass\":\"%s\",\"off\":%u,\"n\":%lu,"
                                      "\"memchanged\":%d,\"sig\":\"%s\"}",
                                      rw ? "w" : "r", lvl, typed, pc.name, off, (unsigned long) (n <= 100000 ? n : (n < (std::size_t(1) << 32) ? 100001 : 100002)), changed, signame(sg));
                        emit_raw(buf, "prefetch", rw ? "write" : "read");
                    }
}

int main(int argc, char** argv) {
    if (argc < 5) return 2;
    g_tier = std::strcmp(argv[2], "thorough") == 0;
    if (!open_sink(argv[4])) return 2;
    g_pages = static_cast<unsigned char*>(mmap(nullptr, 3 * PG, PROT_READ | PROT_WRITE, MAP_PRIVATE | MAP_ANONYMOUS, -1, 0));
    if (g_pages == MAP_FAILED) return 2;
    for (std::size_t i = 0; i < 3 * PG; ++i) g_pages[i] = (unsigned char) (i * 31 + 7);
    if (mprotect(g_pages, PG, PROT_NONE) || mprotect(g_pages + 2 * PG, PG, PROT_NONE)) return 2;
    install_handlers();
    set_label("prefetch", "prefetch");
    level_cases<avel::L1_CACHE>(1);
    level_cases<avel::L2_CACHE>(2);
    level_cases<avel::L3_CACHE>(3);
    close_sink();
    return 0;
}
