// Memory driver (C08 values, C09 footprint): load / aligned_load / store /
// aligned_store (run-time and compile-time counts), gather / scatter,
// to_array / array constructor, extract<I> / insert<I>.
//
// Every transfer is issued against a buffer inside one accessible page that is
// surrounded by PROT_NONE pages: "end" placements end flush against the
// inaccessible page (one byte read or written too many faults), "start"
// placements begin on the page boundary, "prot" placements (n = 0 only) point
// into the inaccessible page itself.  Store targets are surrounded by sentinel
// bytes; the whole window before/after is recorded.
// usage: drv_mem <family: mem> <tier> <seed> <out-prefix>
#include "common/inputs.hpp"
#include "common/types.hpp"
#include "common/vh.hpp"
#include "common/hwwatch.hpp"

#include <sys/mman.h>
#ifdef VH_VALGRIND
#include <valgrind/memcheck.h>
#endif

using namespace vh;

static bool g_hw = false;                  // hardware watchpoints usable (and not running under valgrind)
static unsigned char* g_far_centre = nullptr;   // centre window of the far-index reservation (nullptr: not available)
static unsigned char* g_pages = nullptr;  // 3 pages: [PROT_NONE][RW][PROT_NONE]
static const std::size_t PG = 4096;
static unsigned char* mid_begin() { return g_pages + PG; }
static unsigned char* mid_end() { return g_pages + 2 * PG; }

static std::string bytes(const void* p, std::size_t n) {
    const unsigned char* c = static_cast<const unsigned char*>(p);
    std::string s = "[";
    char b[8];
    for (std::size_t i = 0; i < n; ++i) {
        std::snprintf(b, sizeof(b), i ? ",%u" : "%u", unsigned(c[i]));
        s += b;
    }
    return s + "]";
}

template<class V>
struct MemDrv {
    typedef typename V::scalar S;
    enum { N = V::width, W = sizeof(S) };
    typedef std::array<S, N> A;
    const char* tn;
    Rng rng;
    unsigned serial;

    MemDrv(const char* name, std::uint64_t seed) : tn(name), rng(seed * 2654435761ull + N * 8 + W), serial(0) {}

    std::string head(const char* o, unsigned long n) {
        return std::string("{\"o\":\"") + o + "\",\"k\":\"v\",\"N\":" + std::to_string(unsigned(N)) + ",\"w\":" +
               std::to_string(unsigned(W)) + ",\"n\":" + std::to_string(n > 1000 ? 1000 + (n & 1) : n);
    }
    // distinct, recognisable lane contents (never equal to a sentinel byte)
    A fresh_vector() {
        A a;
        unsigned char* c = reinterpret_cast<unsigned char*>(a.data());
        ++serial;
        // two families of data, alternating: all bytes < 0x80 / all bytes >= 0x80 (sign-extension mistakes in one `case n:`)
        for (unsigned i = 0; i < N * W; ++i) c[i] = (unsigned char) ((1 + ((i * 37 + serial * 13) % 126)) | ((serial & 1) ? 0x80 : 0));
        return a;
    }
    static void fill_sentinels(unsigned char* p, std::size_t n) {
        for (std::size_t i = 0; i < n; ++i) p[i] = (unsigned char) (0x80 | ((i * 5 + 3) & 0x7F));
    }

    // target address for k bytes under a placement; lead/tail = sentinel bytes available
    struct Place {
        unsigned char* p;
        std::size_t lead, tail;
        const char* name;
    };
    Place place(int which, std::size_t k, bool aligned, std::size_t misalign) {
        Place pl;
        const std::size_t AL = N * W;
        switch (which) {
            case 0:
                pl.p = mid_begin() + 1024 + (aligned ? 0 : misalign);
                pl.lead = 32;
                pl.tail = 32;
                pl.name = "mid";
                break;
            case 1:  // end flush: the k addressed bytes end at the page boundary
                if (aligned) {
                    pl.p = mid_end() - AL;
                    pl.tail = AL - k;
                    if (pl.tail > 32) pl.tail = 32;
                } else {
                    pl.p = mid_end() - k;
                    pl.tail = 0;
                }
                pl.lead = 32;
                pl.name = "end";
                break;
            case 2:
                pl.p = mid_begin();
                pl.lead = 0;
                pl.tail = 32;
                pl.name = "start";
                break;
            default:  // inside the inaccessible page (only legal with k = 0); 64 is aligned for every vector
                pl.p = mid_end() + 64;
                pl.lead = 0;
                pl.tail = 0;
                pl.name = "prot";
                break;
        }
        return pl;
    }

    //--------------------------------------------------------------------
    template<class F>
    void one_load(const char* form, unsigned long n, bool aligned, int which, F f) {
        one_load1(form, n, aligned, which, f);
        one_load1(form, n, aligned, which, f);     // second call: the other data family
    }
    template<class F>
    void one_load1(const char* form, unsigned long n, bool aligned, int which, F f) {
        const std::size_t k = std::size_t(n < N ? n : N) * W;
        if (which == 3 && k != 0) return;
        Place pl = place(which, k, aligned, W);
        A src = fresh_vector();
        if (k) std::memcpy(pl.p, src.data(), k);
        // bytes after the addressed ones (if accessible) are non-zero noise
        if (which != 3 && pl.tail) fill_sentinels(pl.p + k, pl.tail);
        A r{};
        const S* ptr = reinterpret_cast<const S*>(pl.p);
        std::string vg;
#ifdef VH_VALGRIND
        // byte-exact read footprint: everything around the addressed elements is marked inaccessible for memcheck
        unsigned long e0 = 0;
        if (which != 3) {
            if (pl.lead) VALGRIND_MAKE_MEM_NOACCESS(pl.p - pl.lead, pl.lead);
            if (pl.tail) VALGRIND_MAKE_MEM_NOACCESS(pl.p + k, pl.tail);
            e0 = VALGRIND_COUNT_ERRORS;
        }
#endif
        // byte-exact footprint in every configuration: hardware watchpoints on the bytes adjacent to the addressed elements
        HwWatch hw;
        const bool hwon = g_hw && hw.watch_around(pl.p, pl.p + k, true, true, serial * 3 + (serial >> 3)) > 0;
        int sg = guarded([&] { r = avel::to_array(f(ptr)); });
        if (hwon) vg += ",\"hw\":" + std::to_string(hw.disarm());
#ifdef VH_VALGRIND
        if (which != 3) {
            unsigned long e1 = VALGRIND_COUNT_ERRORS;
            if (pl.lead) VALGRIND_MAKE_MEM_DEFINED(pl.p - pl.lead, pl.lead);
            if (pl.tail) VALGRIND_MAKE_MEM_DEFINED(pl.p + k, pl.tail);
            vg += ",\"vgerr\":" + std::to_string(e1 - e0);
        }
#endif
        std::string s = head("load", n) + ",\"place\":\"" + pl.name + "\",\"src\":" + bytes(src.data(), k) + ",\"r\":" +
                        (sg ? std::string("[]") : bytes(r.data(), N * W)) + vg + ",\"sig\":\"" + signame(sg) + "\"}";
        emit_raw(s, tn, form);
    }

    template<class F>
    void one_store(const char* form, unsigned long n, bool aligned, int which, F f) {
        const std::size_t k = std::size_t(n < N ? n : N) * W;
        if (which == 3 && k != 0) return;
        Place pl = place(which, k, aligned, W);
        A v = fresh_vector();
        std::size_t win = pl.lead + k + pl.tail;
        unsigned char* base = pl.p - pl.lead;
        std::vector<unsigned char> before(win);
        if (which != 3) {
            fill_sentinels(base, win);
            std::memcpy(before.data(), base, win);
        }
        S* ptr = reinterpret_cast<S*>(pl.p);
        HwWatch hw;
        const bool hwon = g_hw && hw.watch_around(pl.p, pl.p + k, true, true, serial * 3 + (serial >> 3)) > 0;
        int sg = guarded([&] { f(ptr, V(v)); });
        std::string hws = hwon ? ",\"hw\":" + std::to_string(hw.disarm()) : std::string();
        std::string s = head("store", n) + hws + ",\"place\":\"" + pl.name + "\",\"lead\":" + std::to_string(pl.lead) + ",\"v\":" +
                        bytes(v.data(), N * W) + ",\"before\":" + bytes(before.data(), which == 3 ? 0 : win) + ",\"after\":" +
                        bytes(base, which == 3 ? 0 : win) + ",\"sig\":\"" + signame(sg) + "\"}";
        emit_raw(s, tn, form);
    }

    template<unsigned K, int D = 0>
    struct CT {
        static void run(MemDrv& d) {
            d.template ct_one<K>();
            CT<K - 1>::run(d);
        }
    };
    template<int D>
    struct CT<0, D> {
        static void run(MemDrv& d) { d.template ct_one<0>(); }
    };
    template<unsigned K>
    void ct_one() {
        for (int which = 0; which < 4; ++which) {
            one_load("load_ct", K, false, which, [](const S* p) { return avel::load<V, K>(p); });
            one_store("store_ct", K, false, which, [](S* p, V v) { avel::store<K>(p, v); });
            one_load("aligned_load_ct", K, true, which, [](const S* p) { return avel::aligned_load<V, K>(p); });
            one_store("aligned_store_ct", K, true, which, [](S* p, V v) { avel::aligned_store<K>(p, v); });
        }
        gs_ct<K>();
    }

    //--------------------------------------------------------------------
    // gather / scatter (32- and 64-bit elements)
    //--------------------------------------------------------------------
    typedef typename avel::to_index_type<S>::type IS;
    typedef avel::Vector<IS, N> IV;
    enum { ARENA = 48 };

    // watch up to four arena elements that no active lane addresses, neighbours of addressed ones first
    int watch_unaddressed(HwWatch& hw, const S* arena, const int* act, unsigned k) {
        bool addressed[ARENA] = {};
        for (unsigned j = 0; j < k; ++j) addressed[act[j]] = true;
        const void* w[4];
        int cnt = 0;
        bool taken[ARENA] = {};
        for (unsigned j = 0; j < k && cnt < 4; ++j)
            for (int d = 1; d >= -1 && cnt < 4; d -= 2) {
                int e = act[(j + serial) % k] + d;
                if (e >= 0 && e < ARENA && !addressed[e] && !taken[e]) { taken[e] = true; w[cnt++] = arena + e; }
            }
        for (int e = int(serial % ARENA), t = 0; t < ARENA && cnt < 4; ++t, e = (e + 7) % ARENA)
            if (!addressed[e] && !taken[e]) { taken[e] = true; w[cnt++] = arena + e; }
        return hw.watch_elements(w, cnt, W);
    }

    template<class F>
    void one_gather(const char* form, unsigned long n, F f) {
        const unsigned k = unsigned(n < N ? n : N);
        // arena = the last ARENA elements of the accessible page; p points into it
        S* arena = reinterpret_cast<S*>(mid_end()) - ARENA;
        unsigned char* ab = reinterpret_cast<unsigned char*>(arena);
        for (unsigned i = 0; i < ARENA * W; ++i) ab[i] = (unsigned char) (1 + ((i * 11 + serial * 7) % 250));
        ++serial;
        int base = int(rng.next() % ARENA);
        std::array<IS, N> idx;
        int act[N] = {};
        std::string idxs = "[";
        for (unsigned j = 0; j < N; ++j) {
            if (j < k) {
                int e = int(rng.next() % ARENA);
                act[j] = e;
                idx[j] = IS(e - base);
                idxs += (j ? "," : "") + std::to_string(e - base);
            } else {
                // inactive lane: wild index into the inaccessible page behind the arena
                idx[j] = IS((ARENA - base) + 8 + int(j));
            }
        }
        idxs += "]";
        opaque(idx);
        A r{};
        const S* p = arena + base;
        HwWatch hw;
        const bool hwon = g_hw && watch_unaddressed(hw, arena, act, k) > 0;
        int sg = guarded([&] { r = avel::to_array(f(p, IV(idx))); });
        std::string hws = hwon ? ",\"hw\":" + std::to_string(hw.disarm()) : std::string();
        std::string s = head("gather", n) + hws + ",\"place\":\"end\",\"base\":" + std::to_string(base) + ",\"idx\":" + idxs + ",\"mem\":" +
                        bytes(arena, ARENA * W) + ",\"r\":" + (sg ? std::string("[]") : bytes(r.data(), N * W)) + ",\"sig\":\"" +
                        signame(sg) + "\"}";
        emit_raw(s, tn, form);
    }

    template<class F>
    void one_scatter(const char* form, unsigned long n, F f) {
        const unsigned k = unsigned(n < N ? n : N);
        S* arena = reinterpret_cast<S*>(mid_end()) - ARENA;
        unsigned char* ab = reinterpret_cast<unsigned char*>(arena);
        for (unsigned i = 0; i < ARENA * W; ++i) ab[i] = (unsigned char) (0x80 | ((i * 3 + serial) & 0x7F));
        std::vector<unsigned char> before(ab, ab + ARENA * W);
        A v = fresh_vector();
        int base = int(rng.next() % ARENA);
        std::array<IS, N> idx;
        std::string idxs = "[";
        bool used[ARENA] = {};
        int act[N] = {};
        for (unsigned j = 0; j < N; ++j) {
            if (j < k) {
                int e;
                do { e = int(rng.next() % ARENA); } while (used[e]);   // distinct active targets
                used[e] = true;
                act[j] = e;
                idx[j] = IS(e - base);
                idxs += (j ? "," : "") + std::to_string(e - base);
            } else {
                idx[j] = IS((ARENA - base) + 8 + int(j));
            }
        }
        idxs += "]";
        opaque(idx);
        S* p = arena + base;
        HwWatch hw;
        const bool hwon = g_hw && watch_unaddressed(hw, arena, act, k) > 0;
        int sg = guarded([&] { f(p, V(v), IV(idx)); });
        std::string hws = hwon ? ",\"hw\":" + std::to_string(hw.disarm()) : std::string();
        std::string s = head("scatter", n) + hws + ",\"place\":\"end\",\"base\":" + std::to_string(base) + ",\"idx\":" + idxs + ",\"v\":" +
                        bytes(v.data(), N * W) + ",\"mem\":" + bytes(before.data(), ARENA * W) + ",\"after\":" + bytes(arena, ARENA * W) +
                        ",\"sig\":\"" + signame(sg) + "\"}";
        emit_raw(s, tn, form);
    }

    //--------------------------------------------------------------------
    // gather / scatter with indices far outside the 32-bit range (64-bit index lanes) or near the ends of the
    // 32-bit range (32-bit index lanes): five accessible 4 KiB windows inside one huge PROT_NONE reservation.
    // The event is expressed in the coordinates of the concatenated windows (16 elements each), so the
    // specification judges it exactly like a near gather; the index AVEL receives is the real, far one.
    //--------------------------------------------------------------------
    enum { FW = 5, FE = 16 };
    static long long far_off(int w) {      // byte offset of window w from the centre window
        if (sizeof(S) == 8) {
            const long long f = ((1ll << 32) + 16) * 8;
            const long long o[FW] = {0, f, -f, (1ll << 31) * 8 + 64 * 8, -((1ll << 31) * 8 + 64 * 8)};
            return o[w];
        }
        const long long o[FW] = {0, ((1ll << 29) + 8) * 4, -(((1ll << 29) + 8) * 4), ((1ll << 31) - 1024) * 4, -(((1ll << 31) - 1024) * 4)};
        return o[w];
    }
    static S* far_win(int w) { return reinterpret_cast<S*>(g_far_centre + far_off(w)); }

    template<class F>
    void far_gather(const char* form, unsigned long n, F f) {
        if (!g_far_centre) return;
        const unsigned k = unsigned(n < N ? n : N);
        std::vector<unsigned char> img(FW * FE * W);
        for (int w = 0; w < FW; ++w) {
            unsigned char* wb = reinterpret_cast<unsigned char*>(far_win(w));
            for (unsigned i = 0; i < FE * W; ++i) wb[i] = (unsigned char) (1 + ((i * 13 + w * 41 + serial * 7) % 250));
            std::memcpy(&img[w * FE * W], wb, FE * W);
        }
        ++serial;
        const int b0 = int(rng.next() % FE);
        const S* p = far_win(0) + b0;
        std::array<IS, N> idx;
        std::string idxs = "[";
        for (unsigned j = 0; j < N; ++j) {
            if (j < k) {
                int w = int((j + serial) % FW), e = int(rng.next() % FE);
                long long real = (reinterpret_cast<const unsigned char*>(far_win(w) + e) - reinterpret_cast<const unsigned char*>(p)) / (long long) W;
                idx[j] = IS(real);
                idxs += (j ? "," : "") + std::to_string(w * FE + e - b0);
            } else {
                idx[j] = IS(4096 / W + 64 + int(j));      // inactive: inside the reservation, inaccessible
            }
        }
        idxs += "]";
        opaque(idx);
        A r{};
        int sg = guarded([&] { r = avel::to_array(f(p, IV(idx))); });
        std::string s = head("gather", n) + ",\"place\":\"far\",\"base\":" + std::to_string(b0) + ",\"idx\":" + idxs + ",\"mem\":" +
                        bytes(img.data(), img.size()) + ",\"r\":" + (sg ? std::string("[]") : bytes(r.data(), N * W)) + ",\"sig\":\"" + signame(sg) + "\"}";
        emit_raw(s, tn, form);
    }
    template<class F>
    void far_scatter(const char* form, unsigned long n, F f) {
        if (!g_far_centre) return;
        const unsigned k = unsigned(n < N ? n : N);
        std::vector<unsigned char> before(FW * FE * W), after(FW * FE * W);
        for (int w = 0; w < FW; ++w) {
            unsigned char* wb = reinterpret_cast<unsigned char*>(far_win(w));
            for (unsigned i = 0; i < FE * W; ++i) wb[i] = (unsigned char) (0x80 | ((i * 3 + w * 17 + serial) & 0x7F));
            std::memcpy(&before[w * FE * W], wb, FE * W);
        }
        A v = fresh_vector();
        const int b0 = int(rng.next() % FE);
        S* p = far_win(0) + b0;
        std::array<IS, N> idx;
        std::string idxs = "[";
        bool used[FW * FE] = {};
        for (unsigned j = 0; j < N; ++j) {
            if (j < k) {
                int w, e;
                do { w = int(rng.next() % FW); e = int(rng.next() % FE); } while (used[w * FE + e]);
                used[w * FE + e] = true;
                long long real = (reinterpret_cast<unsigned char*>(far_win(w) + e) - reinterpret_cast<unsigned char*>(p)) / (long long) W;
                idx[j] = IS(real);
                idxs += (j ? "," : "") + std::to_string(w * FE + e - b0);
            } else {
                idx[j] = IS(4096 / W + 64 + int(j));
            }
        }
        idxs += "]";
        opaque(idx);
        int sg = guarded([&] { f(p, V(v), IV(idx)); });
        for (int w = 0; w < FW; ++w) std::memcpy(&after[w * FE * W], far_win(w), FE * W);
        std::string s = head("scatter", n) + ",\"place\":\"far\",\"base\":" + std::to_string(b0) + ",\"idx\":" + idxs + ",\"v\":" +
                        bytes(v.data(), N * W) + ",\"mem\":" + bytes(before.data(), before.size()) + ",\"after\":" + bytes(after.data(), after.size()) +
                        ",\"sig\":\"" + signame(sg) + "\"}";
        emit_raw(s, tn, form);
    }

    template<unsigned K, class VV = V>
    typename std::enable_if<(sizeof(typename VV::scalar) >= 4)>::type gs_ct() {
        one_gather("gather_ct", K, [](const S* p, IV i) { return avel::gather<V, K>(p, i); });
        one_scatter("scatter_ct", K, [](S* p, V v, IV i) { avel::scatter<K>(p, v, i); });
        far_gather("gather_ct", K, [](const S* p, IV i) { return avel::gather<V, K>(p, i); });
        far_scatter("scatter_ct", K, [](S* p, V v, IV i) { avel::scatter<K>(p, v, i); });
    }
    template<unsigned K, class VV = V>
    typename std::enable_if<(sizeof(typename VV::scalar) < 4)>::type gs_ct() {}

    template<class VV = V>
    typename std::enable_if<(sizeof(typename VV::scalar) >= 4)>::type gs_rt(unsigned long n) {
        for (int rep = 0; rep < 3; ++rep) {
            one_gather("gather_n", n, [n](const S* p, IV i) { return avel::gather<V>(p, i, std::uint32_t(n)); });
            one_scatter("scatter_n", n, [n](S* p, V v, IV i) { avel::scatter(p, v, i, std::uint32_t(n)); });
            far_gather("gather_n", n, [n](const S* p, IV i) { return avel::gather<V>(p, i, std::uint32_t(n)); });
            far_scatter("scatter_n", n, [n](S* p, V v, IV i) { avel::scatter(p, v, i, std::uint32_t(n)); });
        }
    }
    template<class VV = V>
    typename std::enable_if<(sizeof(typename VV::scalar) < 4)>::type gs_rt(unsigned long) {}

    //--------------------------------------------------------------------
    template<unsigned I, int D = 0>
    struct Lane {
        static void run(MemDrv& d) {
            d.template lane_one<I>();
            Lane<I - 1>::run(d);
        }
    };
    template<int D>
    struct Lane<0, D> {
        static void run(MemDrv& d) { d.template lane_one<0>(); }
    };
    template<unsigned I>
    void lane_one() {
        for (int rep = 0; rep < 2; ++rep) {
            A v = fresh_vector();
            opaque(v);
            S x = S(0), r = S(0);
            unsigned char* xb = reinterpret_cast<unsigned char*>(&x);
            for (unsigned i = 0; i < W; ++i) xb[i] = (unsigned char) (200 + i + rep);
            opaque(x);
            A ri{};
            int sg = guarded([&] {
                r = avel::extract<I>(V(v));
                ri = avel::to_array(avel::insert<I>(V(v), x));
            });
            std::string h = std::string("\",\"k\":\"v\",\"N\":") + std::to_string(unsigned(N)) + ",\"w\":" + std::to_string(unsigned(W)) +
                            ",\"n\":0,\"I\":" + std::to_string(I) + ",\"v\":" + bytes(v.data(), N * W);
            emit_raw("{\"o\":\"extract" + h + ",\"r\":" + bytes(&r, W) + ",\"sig\":\"" + signame(sg) + "\"}", tn, "extract");
            emit_raw("{\"o\":\"insert" + h + ",\"x\":" + bytes(&x, W) + ",\"r\":" + bytes(ri.data(), N * W) + ",\"sig\":\"" + signame(sg) + "\"}", tn, "insert");
        }
    }

    void run() {
        set_label(tn, "mem");
        std::vector<unsigned long> ns;
        for (unsigned long n = 0; n <= N + 2; ++n) ns.push_back(n);
        ns.push_back(0x80000000ul);
        ns.push_back(0xFFFFFFFFul);
        for (unsigned long n : ns) {
            for (int which = 0; which < 4; ++which) {
                one_load("load_n", n, false, which, [n](const S* p) { return avel::load<V>(p, std::uint32_t(n)); });
                one_store("store_n", n, false, which, [n](S* p, V v) { avel::store(p, v, std::uint32_t(n)); });
                one_load("aligned_load_n", n, true, which, [n](const S* p) { return avel::aligned_load<V>(p, std::uint32_t(n)); });
                one_store("aligned_store_n", n, true, which, [n](S* p, V v) { avel::aligned_store(p, v, std::uint32_t(n)); });
            }
            gs_rt(n);
        }
        CT<N>::run(*this);
        Lane<N - 1>::run(*this);
        // to_array / array constructor round trip
        for (int rep = 0; rep < 8; ++rep) {
            A v = fresh_vector();
            opaque(v);
            A r{};
            int sg = guarded([&] { r = avel::to_array(V(v)); });
            emit_raw(head("roundtrip", 0) + ",\"v\":" + bytes(v.data(), N * W) + ",\"r\":" + bytes(r.data(), N * W) + ",\"sig\":\"" + signame(sg) + "\"}", tn, "to_array");
        }
    }
};

int main(int argc, char** argv) {
    if (argc < 5) return 2;
    g_tier = std::strcmp(argv[2], "thorough") == 0;
    std::uint64_t seed = std::strtoull(argv[3], nullptr, 10);
    if (!open_sink(argv[4])) return 2;
    g_pages = static_cast<unsigned char*>(mmap(nullptr, 3 * PG, PROT_READ | PROT_WRITE, MAP_PRIVATE | MAP_ANONYMOUS, -1, 0));
    if (g_pages == MAP_FAILED) return 2;
    std::memset(g_pages, 0x5A, 3 * PG);
    if (mprotect(g_pages, PG, PROT_NONE) || mprotect(g_pages + 2 * PG, PG, PROT_NONE)) return 2;
#ifndef VH_VALGRIND
    {   // far-index reservation: 80 GiB of PROT_NONE address space, five accessible pages (no memory is committed)
        const std::size_t HALF = std::size_t(40) << 30;
        void* r = mmap(nullptr, 2 * HALF + PG, PROT_NONE, MAP_PRIVATE | MAP_ANONYMOUS | MAP_NORESERVE, -1, 0);
        if (r != MAP_FAILED) {
            g_far_centre = static_cast<unsigned char*>(r) + HALF;
            const long long offs[] = {0, ((1ll << 32) + 16) * 8, -(((1ll << 32) + 16) * 8), (1ll << 31) * 8 + 64 * 8, -((1ll << 31) * 8 + 64 * 8),
                                      ((1ll << 29) + 8) * 4, -(((1ll << 29) + 8) * 4), ((1ll << 31) - 1024) * 4, -(((1ll << 31) - 1024) * 4)};
            for (long long o : offs) {
                unsigned char* w = g_far_centre + o;
                unsigned char* pg = reinterpret_cast<unsigned char*>(reinterpret_cast<std::uintptr_t>(w) & ~std::uintptr_t(PG - 1));
                if (mprotect(pg, 2 * PG, PROT_READ | PROT_WRITE)) { g_far_centre = nullptr; break; }
            }
        }
    }
#endif
    install_handlers();
#ifndef VH_VALGRIND
    g_hw = !std::getenv("VH_NO_HWWATCH") && HwWatch::available() && HwWatch::masked_out_is_silent();
#endif
    std::fprintf(stderr, "vh: hwwatch=%d\n", int(g_hw));
#define RUN_MEM(X)                          \
    {                                       \
        MemDrv<avel::vec##X> d(#X, seed);   \
        d.run();                            \
    }
    VH_ALL_TYPES(RUN_MEM)
    close_sink();
    return 0;
}
