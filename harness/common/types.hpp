// Type lists per build configuration and element-size group.
// VH_GROUP selects the element size compiled into this translation unit
// (8, 16, 32, 64; 0 = all) so that drivers can be built in parallel.
#ifndef VH_TYPES_HPP
#define VH_TYPES_HPP

// the feature macros a configuration implies are only defined once Capabilities.hpp has run
#include <avel/Avel.hpp>

#ifndef VH_GROUP
#define VH_GROUP 0
#endif

#define VH_G(n) (VH_GROUP == 0 || VH_GROUP == n)

#if defined(AVEL_SSE2)
#define VH_IF128(...) __VA_ARGS__
#else
#define VH_IF128(...)
#endif
#if defined(AVEL_AVX2)
#define VH_IF256(...) __VA_ARGS__
#else
#define VH_IF256(...)
#endif
#if defined(AVEL_AVX512F)
#define VH_IF512(...) __VA_ARGS__
#else
#define VH_IF512(...)
#endif
#if defined(AVEL_AVX512BW)
#define VH_IF512BW(...) __VA_ARGS__
#else
#define VH_IF512BW(...)
#endif

// X(vector alias suffix)  e.g. X(16x8u) -> avel::vec16x8u, avel::mask16x8u, "16x8u"
#if VH_G(8)
#define VH_INT8(X) X(1x8u) X(1x8i) VH_IF128(X(16x8u) X(16x8i)) VH_IF256(X(32x8u) X(32x8i)) VH_IF512BW(X(64x8u) X(64x8i))
#else
#define VH_INT8(X)
#endif
#if VH_G(16)
#define VH_INT16(X) X(1x16u) X(1x16i) VH_IF128(X(8x16u) X(8x16i)) VH_IF256(X(16x16u) X(16x16i)) VH_IF512BW(X(32x16u) X(32x16i))
#else
#define VH_INT16(X)
#endif
#if VH_G(32)
#define VH_INT32(X) X(1x32u) X(1x32i) VH_IF128(X(4x32u) X(4x32i)) VH_IF256(X(8x32u) X(8x32i)) VH_IF512(X(16x32u) X(16x32i))
#define VH_F32(X) X(1x32f) VH_IF128(X(4x32f)) VH_IF256(X(8x32f)) VH_IF512(X(16x32f))
#else
#define VH_INT32(X)
#define VH_F32(X)
#endif
#if VH_G(64)
#define VH_INT64(X) X(1x64u) X(1x64i) VH_IF128(X(2x64u) X(2x64i)) VH_IF256(X(4x64u) X(4x64i)) VH_IF512(X(8x64u) X(8x64i))
#define VH_F64(X) X(1x64f) VH_IF128(X(2x64f)) VH_IF256(X(4x64f)) VH_IF512(X(8x64f))
#else
#define VH_INT64(X)
#define VH_F64(X)
#endif

#define VH_INT_TYPES(X) VH_INT8(X) VH_INT16(X) VH_INT32(X) VH_INT64(X)
#define VH_FLOAT_TYPES(X) VH_F32(X) VH_F64(X)
#define VH_ALL_TYPES(X) VH_INT_TYPES(X) VH_FLOAT_TYPES(X)

// scalar element types of the group (for the scalar overloads)
#if VH_G(8)
#define VH_S8(X) X(std::uint8_t, "s8u") X(std::int8_t, "s8i")
#else
#define VH_S8(X)
#endif
#if VH_G(16)
#define VH_S16(X) X(std::uint16_t, "s16u") X(std::int16_t, "s16i")
#else
#define VH_S16(X)
#endif
#if VH_G(32)
#define VH_S32(X) X(std::uint32_t, "s32u") X(std::int32_t, "s32i")
#else
#define VH_S32(X)
#endif
#if VH_G(64)
#define VH_S64(X) X(std::uint64_t, "s64u") X(std::int64_t, "s64i")
#else
#define VH_S64(X)
#endif
#define VH_INT_SCALARS(X) VH_S8(X) VH_S16(X) VH_S32(X) VH_S64(X)

#endif
