// Input sets: chosen from the case analysis of the specification (boundaries
// of carries, sub-lane patterns, sign changes, powers of two), not at random;
// a seeded random tail is added on top.
#ifndef VH_INPUTS_HPP
#define VH_INPUTS_HPP

#include "vh.hpp"

#include <algorithm>
#include <utility>

namespace vh {

// tier: 0 quick, 1 thorough
static int g_tier = 0;

template<class U>
static inline void push_unique(std::vector<U>& v, U x) { v.push_back(x); }

template<class U>
static inline void finish(std::vector<U>& v) {
    std::sort(v.begin(), v.end());
    v.erase(std::unique(v.begin(), v.end()), v.end());
}

// boundary lattice of the W-bit patterns, as the unsigned type U
template<class U>
static std::vector<U> lattice_bits() {
    const int W = int(sizeof(U) * 8);
    std::vector<U> v;
    if (W == 8 && !std::getenv("VH_LIGHT")) {
        for (unsigned i = 0; i < 256; ++i) v.push_back(U(i));
        return v;
    }
    for (int k = 0; k < W; ++k) {
        U p = U(U(1) << k);
        v.push_back(p);
        v.push_back(U(p - 1));
        if (W <= 32 || k % 4 == 0 || k >= W - 2 || g_tier) v.push_back(U(p + 1));
        if (W <= 16 || k % 8 == 7 || g_tier) v.push_back(U(~p));
        if (g_tier) v.push_back(U(U(0) - p));
    }
    const std::uint64_t pats[] = {
        0ull, 1ull, 2ull, 3ull, ~0ull, ~0ull - 1, 0x5555555555555555ull, 0xAAAAAAAAAAAAAAAAull,
        0x00FF00FF00FF00FFull, 0xFF00FF00FF00FF00ull, 0x0000FFFF0000FFFFull, 0xFFFF0000FFFF0000ull,
        0x00000000FFFFFFFFull, 0xFFFFFFFF00000000ull, 0x0123456789ABCDEFull, 0xFEDCBA9876543210ull,
        0x8000000000000000ull, 0x7FFFFFFFFFFFFFFFull, 0x8000000000000001ull, 0x0101010101010101ull,
        0x8080808080808080ull, 0x7F7F7F7F7F7F7F7Full, 0x00000000000000FFull, 0x000000000000FF00ull,
        0x0000000000010000ull, 0x000000000001FFFFull, 0x00000000DEADBEEFull, 0x00000000000186A0ull,
        10ull, 100ull, 1000ull, 7ull, 13ull, 255ull, 256ull, 257ull};
    for (std::uint64_t p : pats) {
        v.push_back(U(p));
        v.push_back(U(p >> (64 - W)));
    }
    if (W == 64) {
        // equal upper halves / differing lower halves and vice versa
        const std::uint32_t h[] = {0u, 1u, 0x7FFFFFFFu, 0x80000000u, 0xFFFFFFFFu};
        for (std::uint32_t hi : h)
            for (std::uint32_t lo : h) v.push_back(U((std::uint64_t(hi) << 32) | lo));
    }
    if (W == 32) {
        const std::uint32_t h[] = {0u, 1u, 0x7FFFu, 0x8000u, 0xFFFFu};
        for (std::uint32_t hi : h)
            for (std::uint32_t lo : h) v.push_back(U((hi << 16) | lo));
    }
    if (W == 16) {
        const unsigned h[] = {0u, 1u, 0x7Fu, 0x80u, 0xFFu};
        for (unsigned hi : h)
            for (unsigned lo : h) v.push_back(U((hi << 8) | lo));
    }
    finish(v);
    return v;
}

template<class T>
static std::vector<T> lattice() {
    typedef typename std::make_unsigned<T>::type U;
    std::vector<U> b = lattice_bits<U>();
    std::vector<T> v;
    for (U x : b) v.push_back(T(x));
    return v;
}

template<class T>
static T random_value(Rng& r) {
    typedef typename std::make_unsigned<T>::type U;
    std::uint64_t x = r.next();
    // mix of uniform, small, near-boundary
    switch (r.next() % 4) {
        case 0: x >>= (r.next() % (sizeof(T) * 8)); break;
        case 1: x = ~(x >> (r.next() % (sizeof(T) * 8))); break;
        default: break;
    }
    return T(U(x));
}

// operand pairs for binary operations
template<class T>
static std::vector<std::pair<T, T>> pairs(Rng& r, std::size_t nrandom) {
    std::vector<std::pair<T, T>> p;
    std::vector<T> l = lattice<T>();
    for (T a : l)
        for (T b : l) p.push_back(std::make_pair(a, b));
    if (sizeof(T) > 1) {
        typedef typename std::make_unsigned<T>::type U;
        // sums and differences next to zero / next to the wrap-around: (v, -v + d), (v, ~v + d), d in -2..2
        for (T v : l)
            for (int d = -2; d <= 2; ++d) {
                p.push_back(std::make_pair(v, T(U(0) - U(v) + U(d))));
                p.push_back(std::make_pair(T(U(0) - U(v) + U(d)), v));
                p.push_back(std::make_pair(v, T(U(~U(v)) + U(d))));
            }
        // exact multiples and their neighbours (quotient boundaries): (k*b + d, b), d in -1..1
        const std::size_t nm = nrandom / 3 + 40;
        for (std::size_t i = 0; i < nm; ++i) {
            T b = (i % 3 == 0) ? l[r.next() % l.size()] : random_value<T>(r);
            if (b == 0) continue;
            const bool neg = std::is_signed<T>::value && b < 0;
            U mag = neg ? U(U(0) - U(b)) : U(b);
            const U lim = std::is_signed<T>::value ? U(U(~U(0)) >> 1) : U(~U(0));
            U kmax = U(lim / mag);
            if (kmax < 2) continue;
            U ks[4] = {U(2), U(3 + r.next() % 5), U(U(1) << (r.next() % (sizeof(T) * 8 - 1))), U(r.next())};
            for (U k : ks) {
                k = U(k % kmax) + 1;
                if (k < 2) k = 2;
                if (k > kmax) k = kmax;
                U prod = U(mag * k);
                for (int d = -1; d <= 1; ++d) {
                    T a = T(U(prod + U(d)));
                    p.push_back(std::make_pair(a, b));
                    if (std::is_signed<T>::value) p.push_back(std::make_pair(T(U(0) - U(a)), b));
                }
            }
        }
    }
    if (sizeof(T) > 1)
        for (std::size_t i = 0; i < nrandom; ++i) {
            T a = random_value<T>(r), b = random_value<T>(r);
            p.push_back(std::make_pair(a, b));
            // near-equal pairs exercise the comparison emulations
            if (i % 4 == 0) p.push_back(std::make_pair(a, T(a + T(1))));
            if (i % 4 == 1) p.push_back(std::make_pair(a, a));
        }
    return p;
}

// operands for unary operations
template<class T>
static std::vector<T> singles(Rng& r, std::size_t nrandom) {
    std::vector<T> v;
    if (sizeof(T) == 1 || (sizeof(T) == 2 && !std::getenv("VH_LIGHT"))) {
        for (unsigned i = 0; i < (1u << (8 * sizeof(T))); ++i) v.push_back(T(i));
        return v;
    }
    v = lattice<T>();
    // every single-bit, two-bit, low-mask, high-mask pattern and complements
    typedef typename std::make_unsigned<T>::type U;
    const int W = int(sizeof(T) * 8);
    for (int i = 0; i < W; ++i) {
        U lo = U((i == W - 1) ? ~U(0) : U((U(1) << (i + 1)) - 1));
        v.push_back(T(lo));
        v.push_back(T(U(~lo)));
        for (int j = 0; j < i; j += (g_tier ? 1 : 5)) {
            U two = U((U(1) << i) | (U(1) << j));
            v.push_back(T(two));
            v.push_back(T(U(~two)));
        }
    }
    for (std::size_t i = 0; i < nrandom; ++i) v.push_back(random_value<T>(r));
    return v;
}

}  // namespace vh

#endif

//------------------------------------------------------------------------
// floating-point input sets (bit patterns chosen from the case analysis of
// FP.tla: zeros, subnormals, binade edges, halfway cases around 2^(p-1),
// extremes, infinities, quiet and signalling NaNs of both signs)
//------------------------------------------------------------------------
#ifndef VH_FP_INPUTS
#define VH_FP_INPUTS
namespace vh {

template<class F> struct fbits;
template<> struct fbits<float> { typedef std::uint32_t U; enum { P = 24, EB = 8, BIAS = 127 }; };
template<> struct fbits<double> { typedef std::uint64_t U; enum { P = 53, EB = 11, BIAS = 1023 }; };

template<class F>
static F from_bits(typename fbits<F>::U b) { F f; std::memcpy(&f, &b, sizeof(F)); return f; }
template<class F>
static typename fbits<F>::U to_bits(F f) { typename fbits<F>::U b; std::memcpy(&b, &f, sizeof(F)); return b; }

// level 0: core specials (~70 values incl. signs); 1: + binade lattice; 2: + dense
template<class F>
static std::vector<F> fp_lattice(int level) {
    typedef typename fbits<F>::U U;
    const int P = fbits<F>::P, EB = fbits<F>::EB, BIAS = fbits<F>::BIAS;
    const U FR = (U(1) << (P - 1)) - 1;              // fraction mask
    const U EMAX = (U(1) << EB) - 1;
    std::vector<U> m;
    auto mk = [&](U ex, U fr) { return U((ex << (P - 1)) | (fr & FR)); };
    // zeros, subnormals, smallest normals, largest finite, inf, NaNs
    const U core[] = {0, 1, 2, FR, FR - 1, U(1) << (P - 2), mk(1, 0), mk(1, 1), mk(EMAX - 1, FR), mk(EMAX - 1, FR - 1), mk(EMAX - 1, 0),
                      mk(EMAX, 0), mk(EMAX, U(1) << (P - 2)), mk(EMAX, 1), mk(EMAX, FR),
                      mk(BIAS, 0), mk(BIAS, 1), mk(BIAS - 1, FR), mk(BIAS - 1, 0), mk(BIAS - 2, 0), mk(BIAS, U(1) << (P - 2)),
                      mk(BIAS + 1, 0), mk(BIAS + 1, U(1) << (P - 3)), mk(BIAS + 1, U(1) << (P - 2)), mk(BIAS + 1, U(3) << (P - 3)),
                      mk(BIAS - 1, 1), mk(BIAS - 2, FR),
                      // around 2^(P-1) and 2^P: spacing 0.5, 1, 2
                      mk(BIAS + P - 2, 0), mk(BIAS + P - 2, 1), mk(BIAS + P - 2, 2), mk(BIAS + P - 2, 3), mk(BIAS + P - 2, FR), mk(BIAS + P - 2, FR - 1),
                      mk(BIAS + P - 1, 0), mk(BIAS + P - 1, 1), mk(BIAS + P - 1, FR), mk(BIAS + P, 0), mk(BIAS + P, 1),
                      mk(BIAS + P - 3, 1), mk(BIAS + P - 3, 2), mk(BIAS + P - 3, 3), mk(BIAS + P - 3, FR),
                      mk(BIAS + 30, 0), mk(BIAS + 31, 0), mk(BIAS + 31, 1), mk(BIAS + 32, 0), mk(BIAS + 62, 0), mk(BIAS + 63, 0), mk(BIAS + 64, 0),
                      mk(BIAS + 3, U(5) << (P - 5)), mk(BIAS + 6, U(0x25) << (P - 8)), mk(BIAS - 10, 12345)};
    for (U c : core) m.push_back(c);
    if (level >= 1) {
        int step = level >= 2 ? 1 : (EB == 8 ? 4 : 32);
        for (U ex = 0; ex < EMAX; ex += U(step)) {
            m.push_back(mk(ex, 0));
            m.push_back(mk(ex, 1));
            m.push_back(mk(ex, FR));
            m.push_back(mk(ex, U(1) << (P - 2)));
            if (level >= 2) { m.push_back(mk(ex, (U(1) << (P - 2)) - 1)); m.push_back(mk(ex, (U(1) << (P - 2)) + 1)); }
        }
        // halfway and near-halfway values k + 0.5 for small and large k
        for (int e = 0; e < P + 1; ++e) {
            U ex = U(BIAS + e);
            if (e <= P - 2) {
                U half = U(1) << (P - 2 - e);          // the 0.5 bit at this exponent
                m.push_back(mk(ex, half));
                m.push_back(mk(ex, half + 1));
                m.push_back(mk(ex, half - 1));
                m.push_back(mk(ex, half | (half << 1)));   // odd integer + 0.5
                m.push_back(mk(ex, FR ^ (half - 1)));
            }
        }
        for (int e = 1; e < 12; ++e) { m.push_back(mk(U(BIAS - e), 0)); m.push_back(mk(U(BIAS - e), FR)); m.push_back(mk(U(BIAS - e), 1)); }
        // one set bit / a low mask / a high mask walking through the fraction, for the exponent fields whose
        // classification depends on "fraction zero or not" (subnormals, NaN payloads) and their neighbours
        const U exs[] = {0, 1, U(BIAS), EMAX - 1, EMAX};
        for (U ex : exs)
            for (int k = 0; k < P - 1; ++k) {
                m.push_back(mk(ex, U(1) << k));
                m.push_back(mk(ex, (U(1) << k) - 1));
                m.push_back(mk(ex, FR ^ ((U(1) << k) - 1)));
            }
    }
    std::sort(m.begin(), m.end());
    m.erase(std::unique(m.begin(), m.end()), m.end());
    std::vector<F> v;
    const U SB = U(1) << (sizeof(F) * 8 - 1);
    for (U x : m) { v.push_back(from_bits<F>(x)); v.push_back(from_bits<F>(x | SB)); }
    return v;
}

template<class F>
static F random_float(Rng& r) {
    typedef typename fbits<F>::U U;
    const int P = fbits<F>::P, EB = fbits<F>::EB, BIAS = fbits<F>::BIAS;
    U b = U(r.next());
    switch (r.next() % 4) {
        case 0: break;                                           // any pattern
        case 1: {                                                // moderate exponent
            U ex = U(BIAS - 40 + int(r.next() % 80));
            b = (b & ((U(1) << (P - 1)) - 1)) | (ex << (P - 1)) | (b & (U(1) << (sizeof(F) * 8 - 1)));
            break;
        }
        case 2: {                                                // near 2^(P-1): few fractional bits
            U ex = U(BIAS + P - 6 + int(r.next() % 8));
            b = (b & ((U(1) << (P - 1)) - 1)) | (ex << (P - 1)) | (b & (U(1) << (sizeof(F) * 8 - 1)));
            break;
        }
        default: {                                               // sparse significand
            U ex = U(r.next() % ((U(1) << EB) - 1));
            U fr = (U(1) << (r.next() % (P - 1))) | (U(1) << (r.next() % (P - 1)));
            b = (ex << (P - 1)) | fr | (b & (U(1) << (sizeof(F) * 8 - 1)));
        }
    }
    return from_bits<F>(b);
}

}  // namespace vh
#endif
