// Verification harness core: guarded calls into AVEL, environment tracking,
// de-duplicated fact emission.  C++11, no dependency beyond AVEL itself.
//
// A *fact* is one lane-level observation of one AVEL call, taken at the call's
// return: operation, operands, result, signal.  The specification is
// independent of build configuration, vector type, lane and call form, so
// those go to a line-aligned provenance file and are not part of the fact.
#ifndef VH_HPP
#define VH_HPP

#include <avel/Avel.hpp>

#include <array>
#include <csetjmp>
#include <unistd.h>
#include <csignal>
#include <cstdint>
#include <cstdio>
#include <cstdlib>
#include <cstring>
#include <map>
#include <string>
#include <type_traits>
#include <unordered_set>
#include <vector>

#if defined(__x86_64__) || defined(__i386__)
#include <xmmintrin.h>
#endif

namespace vh {

//------------------------------------------------------------------------
// signals: a trap is an AVEL event only while g_in_call is set
//------------------------------------------------------------------------
static sigjmp_buf g_jb;
static volatile sig_atomic_t g_in_call = 0;
static volatile sig_atomic_t g_signo = 0;

static void on_signal(int signo) {
    if (g_in_call) {
        g_in_call = 0;
        g_signo = signo;
        siglongjmp(g_jb, 1);
    }
    // a trap outside an AVEL call is a harness bug: die loudly, never a fact
    static const char msg[] = "VH-HARNESS-ERROR: signal outside AVEL call\n";
    ssize_t w = write(2, msg, sizeof(msg) - 1);
    (void) w;
    _exit(70);
}

static inline void install_handlers() {
    struct sigaction sa;
    std::memset(&sa, 0, sizeof(sa));
    sa.sa_handler = on_signal;
    sigemptyset(&sa.sa_mask);
    sa.sa_flags = SA_NODEFER;
    sigaction(SIGFPE, &sa, nullptr);
    sigaction(SIGSEGV, &sa, nullptr);
    sigaction(SIGBUS, &sa, nullptr);
    sigaction(SIGILL, &sa, nullptr);
    sigaction(SIGABRT, &sa, nullptr);   // abort() from the C library (e.g. an invalid free)
    sigaction(SIGALRM, &sa, nullptr);   // watchdog: a call that does not return
}

static inline const char* signame(int s) {
    switch (s) {
        case 0: return "none";
        case SIGFPE: return "FPE";
        case SIGSEGV: return "SEGV";
        case SIGBUS: return "BUS";
        case SIGILL: return "ILL";
        case SIGABRT: return "ABRT";
        case SIGALRM: return "ALRM";
        default: return "OTHER";
    }
}

//------------------------------------------------------------------------
// floating-point environment
//------------------------------------------------------------------------
struct Env {
    unsigned mxcsr;
    unsigned short x87;
};

static inline Env read_env() {
    Env e;
    e.mxcsr = _mm_getcsr();
    unsigned short cw;
    __asm__ volatile("fnstcw %0" : "=m"(cw));
    e.x87 = cw;
    return e;
}

// the part of the environment C11 speaks about
static inline unsigned env_key(Env e) {
    return (e.mxcsr & 0xE040u) | ((unsigned(e.x87) & 0x0C00u) << 16);
}

static inline const char* rc_name(unsigned rc2) {
    static const char* n[4] = {"RN", "RD", "RU", "RZ"};
    return n[rc2 & 3];
}

static inline void set_rounding(unsigned rc2) {  // 0 RN, 1 RD, 2 RU, 3 RZ (both units)
    unsigned m = _mm_getcsr();
    m = (m & ~0x6000u) | ((rc2 & 3u) << 13);
    _mm_setcsr(m);
    unsigned short cw;
    __asm__ volatile("fnstcw %0" : "=m"(cw));
    cw = (unsigned short) ((cw & ~0x0C00) | ((rc2 & 3u) << 10));
    __asm__ volatile("fldcw %0" : : "m"(cw));
}

static inline const char* current_rm() { return rc_name((_mm_getcsr() >> 13) & 3u); }

struct EnvStat {
    unsigned long calls = 0;
    bool changed = false;
    Env before{}, after{};
};

// (operation, type, mode) -> summary over all calls
static std::map<std::string, EnvStat> g_env;
static EnvStat g_env_none;
static EnvStat* g_cur_env = &g_env_none;

// the driver announces which (type, operation) the following calls belong to
static inline void set_label(const char* type, const char* op) {
    g_cur_env = &g_env[std::string(type) + "|" + op];
}

static inline void env_note(Env b, Env a) {
    EnvStat& s = *g_cur_env;
    if (s.calls == 0) {
        s.before = b;
        s.after = a;
    }
    ++s.calls;
    if (!s.changed && env_key(a) != env_key(b)) {
        s.changed = true;
        s.before = b;
        s.after = a;
    }
}

// Run f() as one AVEL call.  Returns the signal number (0 = returned normally).
template<class F>
static inline int guarded(F&& f) {
    Env b = read_env();
    g_signo = 0;
    if (sigsetjmp(g_jb, 0) == 0) {
        g_in_call = 1;
        // compiler barriers: a (possibly trapping) operation of the call must not be scheduled
        // outside the window in which a signal is attributed to AVEL
        __asm__ volatile("" : : : "memory");
        f();
        __asm__ volatile("" : : : "memory");
        g_in_call = 0;
    }
    Env a = read_env();
    env_note(b, a);
    if (env_key(a) != env_key(b)) {  // restore so later facts are attributed correctly
        _mm_setcsr((a.mxcsr & ~0xE040u) | (b.mxcsr & 0xE040u));
        unsigned short cw = (unsigned short) ((a.x87 & ~0x0C00) | (b.x87 & 0x0C00));
        __asm__ volatile("fldcw %0" : : "m"(cw));
    }
    return g_signo;
}

//------------------------------------------------------------------------
// element kinds
//------------------------------------------------------------------------
template<class T>
struct kind_of {
    static constexpr char value =
        std::is_floating_point<T>::value ? 'f' : (std::is_signed<T>::value ? 'i' : 'u');
};

template<class T>
static inline void opaque(T& x) {
    __asm__ volatile("" : "+m"(x) : : "memory");
}

//------------------------------------------------------------------------
// facts
//------------------------------------------------------------------------
struct Fact {
    const char* o;
    char k;
    const char* rm;  // nullptr unless the rounding mode is part of the fact
    const char* sig;
    int nf;
    struct Fld {
        const char* name;
        int len;  // bytes; 0 = small integer in ival
        unsigned char b[8];
        long ival;
    } f[8];

    Fact(const char* op, char kind) : o(op), k(kind), rm(nullptr), sig("none"), nf(0) {}

    template<class T>
    Fact& val(const char* name, T v) {
        Fld& x = f[nf++];
        x.name = name;
        x.len = int(sizeof(T));
        std::memcpy(x.b, &v, sizeof(T));
        x.ival = 0;
        return *this;
    }
    Fact& num(const char* name, long v) {
        Fld& x = f[nf++];
        x.name = name;
        x.len = 0;
        x.ival = v;
        std::memset(x.b, 0, 8);
        return *this;
    }
    Fact& mode(const char* m) {
        rm = m;
        return *this;
    }
    Fact& signal(int s) {
        sig = signame(s);
        return *this;
    }
};

struct Sink {
    FILE* facts = nullptr;
    FILE* prov = nullptr;
    std::unordered_set<std::uint64_t> seen;
    unsigned long offered = 0, written = 0;
    std::string cfg;
};
static Sink g_sink;

static inline std::uint64_t fnv(std::uint64_t h, const void* p, std::size_t n) {
    const unsigned char* c = static_cast<const unsigned char*>(p);
    for (std::size_t i = 0; i < n; ++i) {
        h ^= c[i];
        h *= 1099511628211ull;
    }
    return h;
}

static inline std::uint64_t hash_fact(const Fact& x) {
    std::uint64_t h = 1469598103934665603ull;
    h = fnv(h, x.o, std::strlen(x.o) + 1);
    h = fnv(h, &x.k, 1);
    if (x.rm) h = fnv(h, x.rm, 3);
    h = fnv(h, x.sig, std::strlen(x.sig) + 1);
    for (int i = 0; i < x.nf; ++i) {
        h = fnv(h, x.f[i].name, std::strlen(x.f[i].name) + 1);
        h = fnv(h, &x.f[i].len, sizeof(int));
        if (x.f[i].len) h = fnv(h, x.f[i].b, std::size_t(x.f[i].len));
        else h = fnv(h, &x.f[i].ival, sizeof(long));
    }
    // second mixing round so that the 64-bit key is well distributed
    h ^= h >> 29;
    h *= 0xBF58476D1CE4E5B9ull;
    h ^= h >> 32;
    return h;
}

// provenance: "<type>:<lane>:<form>"
static inline void emit(const Fact& x, const char* type, int lane, const char* form) {
    Sink& s = g_sink;
    ++s.offered;
    if (!s.seen.insert(hash_fact(x)).second) return;
    char buf[512];
    int n = std::snprintf(buf, sizeof(buf), "{\"o\":\"%s\",\"k\":\"%c\"", x.o, x.k);
    if (x.rm) n += std::snprintf(buf + n, sizeof(buf) - n, ",\"rm\":\"%s\"", x.rm);
    for (int i = 0; i < x.nf; ++i) {
        const Fact::Fld& f = x.f[i];
        if (f.len == 0) {
            n += std::snprintf(buf + n, sizeof(buf) - n, ",\"%s\":%ld", f.name, f.ival);
        } else {
            n += std::snprintf(buf + n, sizeof(buf) - n, ",\"%s\":[", f.name);
            for (int j = 0; j < f.len; ++j)
                n += std::snprintf(buf + n, sizeof(buf) - n, j ? ",%u" : "%u", unsigned(f.b[j]));
            buf[n++] = ']';
        }
    }
    n += std::snprintf(buf + n, sizeof(buf) - n, ",\"sig\":\"%s\"}\n", x.sig);
    std::fwrite(buf, 1, std::size_t(n), s.facts);
    std::fprintf(s.prov, "%s:%d:%s\n", type, lane, form);
    ++s.written;
}

// raw line (vector-level events whose shape does not fit Fact)
static inline void emit_raw(const std::string& json, const char* type, const char* form) {
    Sink& s = g_sink;
    ++s.offered;
    std::uint64_t h = fnv(1469598103934665603ull, json.data(), json.size());
    h ^= h >> 29; h *= 0xBF58476D1CE4E5B9ull; h ^= h >> 32;
    if (!s.seen.insert(h).second) return;
    std::fwrite(json.data(), 1, json.size(), s.facts);
    std::fputc('\n', s.facts);
    std::fprintf(s.prov, "%s:-1:%s\n", type, form);
    ++s.written;
}

static inline void flush_env_facts() {
    for (auto& kv : g_env) {
        const EnvStat& s = kv.second;
        std::string label = kv.first;  // "<type>|<op>"
        std::size_t bar = label.find('|');
        std::string type = label.substr(0, bar), op = label.substr(bar + 1);
        char buf[512];
        std::snprintf(buf, sizeof(buf),
            "{\"o\":\"env\",\"k\":\"e\",\"op\":\"%s\",\"rc0\":\"%s\",\"rc1\":\"%s\","
            "\"x87rc0\":\"%s\",\"x87rc1\":\"%s\",\"ftz0\":%u,\"ftz1\":%u,\"daz0\":%u,\"daz1\":%u,"
            "\"sig\":\"none\"}",
            op.c_str(), rc_name(s.before.mxcsr >> 13), rc_name(s.after.mxcsr >> 13),
            rc_name(unsigned(s.before.x87) >> 10), rc_name(unsigned(s.after.x87) >> 10),
            (s.before.mxcsr >> 15) & 1u, (s.after.mxcsr >> 15) & 1u,
            (s.before.mxcsr >> 6) & 1u, (s.after.mxcsr >> 6) & 1u);
        emit_raw(buf, type.c_str(), "env");
    }
    g_env.clear();
}

static inline bool open_sink(const std::string& prefix) {
    g_sink.facts = std::fopen((prefix + ".facts").c_str(), "w");
    g_sink.prov = std::fopen((prefix + ".prov").c_str(), "w");
    if (!g_sink.facts || !g_sink.prov) return false;
    static char b1[1 << 20], b2[1 << 20];
    std::setvbuf(g_sink.facts, b1, _IOFBF, sizeof(b1));
    std::setvbuf(g_sink.prov, b2, _IOFBF, sizeof(b2));
    return true;
}

static inline void close_sink() {
    flush_env_facts();
    std::fclose(g_sink.facts);
    std::fclose(g_sink.prov);
    std::fprintf(stderr, "vh: offered=%lu written=%lu\n", g_sink.offered, g_sink.written);
}

//------------------------------------------------------------------------
// deterministic PRNG (seeded from VERIF_SEED by the orchestrator)
//------------------------------------------------------------------------
struct Rng {
    std::uint64_t s;
    explicit Rng(std::uint64_t seed) : s(seed * 0x9E3779B97F4A7C15ull + 0x1234567ull) {}
    std::uint64_t next() {
        s += 0x9E3779B97F4A7C15ull;
        std::uint64_t z = s;
        z = (z ^ (z >> 30)) * 0xBF58476D1CE4E5B9ull;
        z = (z ^ (z >> 27)) * 0x94D049BB133111EBull;
        return z ^ (z >> 31);
    }
};

//------------------------------------------------------------------------
// mask lanes through extract<I> (compile-time index recursion)
//------------------------------------------------------------------------
template<class M, unsigned I>
struct MaskLanes {
    static void get(M m, int* o) {
        o[I] = int(avel::extract<I>(m));
        MaskLanes<M, I - 1>::get(m, o);
    }
};
template<class M>
struct MaskLanes<M, 0> {
    static void get(M m, int* o) { o[0] = int(avel::extract<0>(m)); }
};
template<class M>
static inline void mask_lanes(M m, int* o) {
    MaskLanes<M, M::width - 1>::get(m, o);
}

}  // namespace vh

#endif
