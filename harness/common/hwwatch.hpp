// Hardware data watchpoints (x86 debug registers through perf_event_open).
//
// A byte-exact observer of READ and WRITE footprints that works for every
// instruction set the CPU executes, AVX-512 masked accesses included (a masked-out
// element does not trigger, an architecturally accessed one does), and does not
// need the access to fault: the bytes immediately before and after the range a
// call is allowed to touch are watched while the call runs; any trigger is an
// access outside the allowed bytes (C09), even if it stays inside an accessible
// page and even if a write stores back the value that was there.
//
// Four debug registers exist; a watchpoint covers 1, 2, 4 or 8 bytes and must be
// aligned to its length.  watch_around(lo, hi) covers, on either side, the largest
// aligned piece directly adjacent to the range and one roving 8-byte piece up to 64
// bytes further out (its distance varies from call to call).
//
// If the kernel refuses (perf_event_paranoid, seccomp, no debug registers in a VM)
// available() is false and drivers simply do not emit the "hw" field.
#ifndef VH_HWWATCH_HPP
#define VH_HWWATCH_HPP

#include <cerrno>
#include <cstdint>
#include <cstring>

#include <linux/hw_breakpoint.h>
#include <linux/perf_event.h>
#include <sys/ioctl.h>
#include <sys/syscall.h>
#include <unistd.h>
#if defined(__AVX2__) || defined(__AVX512F__)
#include <immintrin.h>
#endif

namespace vh {

class HwWatch {
    int fd_[4];
    int n_;
    static int open_bp(std::uintptr_t addr, unsigned len) {
        perf_event_attr pe;
        std::memset(&pe, 0, sizeof(pe));
        pe.type = PERF_TYPE_BREAKPOINT;
        pe.size = sizeof(pe);
        pe.bp_type = HW_BREAKPOINT_RW;
        pe.bp_addr = addr;
        pe.bp_len = len;
        pe.disabled = 0;
        pe.exclude_kernel = 1;
        pe.exclude_hv = 1;
        return int(syscall(SYS_perf_event_open, &pe, 0, -1, -1, 0));
    }
    static unsigned piece_up(std::uintptr_t a) {      // largest aligned piece starting at a
        unsigned l = 8;
        while (a & (l - 1)) l >>= 1;
        return l;
    }
    static unsigned piece_down(std::uintptr_t a) {    // largest aligned piece ending at a
        return piece_up(a);                            // a % l == 0  <=>  (a - l) % l == 0
    }

public:
    HwWatch() : n_(0) {}
    ~HwWatch() { disarm(); }

    static bool available() {
        static int st = -1;
        if (st < 0) {
            alignas(8) static volatile unsigned char probe[8];
            int fd = open_bp(reinterpret_cast<std::uintptr_t>(&probe[0]), 8);
            if (fd < 0) {
                st = 0;
            } else {
                std::uint64_t c0 = 0, c1 = 0;
                if (read(fd, &c0, 8) != 8) c0 = ~0ull;
                probe[3] = 1;                          // must count exactly one access
                if (read(fd, &c1, 8) != 8) c1 = 0;
                close(fd);
                st = (c1 - c0 == 1) ? 1 : 0;
            }
        }
        return st == 1;
    }

    // Whether a masked-OUT element of a masked vector store / load triggers a watchpoint is implementation
    // dependent for the AVX (vmaskmov) forms.  The observer is only used on a CPU where it does not: otherwise a
    // correct masked implementation would look like an over-access.  (Compiled with the configuration's -m flags.)
    static bool masked_out_is_silent() {
        alignas(64) static unsigned char buf[192];
        unsigned long hits = 0;
        (void) buf;
#if defined(__AVX2__)
        {
            HwWatch w;
            const void* el[1] = {buf + 64};
            if (w.watch_elements(el, 1, 8) != 1) return false;
            __m256i m = _mm256_setr_epi32(-1, -1, -1, -1, 0, 0, 0, 0);
            __m256i v = _mm256_maskload_epi32(reinterpret_cast<const int*>(buf + 48), m);     // elements at 64.. masked out
            _mm256_maskstore_epi32(reinterpret_cast<int*>(buf + 48), m, v);
            __m256 vf = _mm256_maskload_ps(reinterpret_cast<const float*>(buf + 48), m);
            _mm256_maskstore_ps(reinterpret_cast<float*>(buf + 48), m, vf);
            hits += w.disarm();
        }
#endif
#if defined(__AVX512F__)
        {
            HwWatch w;
            const void* el[1] = {buf + 64};
            if (w.watch_elements(el, 1, 8) != 1) return false;
            __m512i v = _mm512_maskz_loadu_epi32(0x00FF, buf + 32);                           // elements at 64.. masked out
            _mm512_mask_storeu_epi32(buf + 32, 0x00FF, v);
            hits += w.disarm();
        }
#endif
#if defined(__AVX512BW__)
        {
            HwWatch w;
            const void* el[1] = {buf + 64};
            if (w.watch_elements(el, 1, 8) != 1) return false;
            __m512i v = _mm512_maskz_loadu_epi8(0x00000000FFFFFFFFull, buf + 32);
            _mm512_mask_storeu_epi8(buf + 32, 0x00000000FFFFFFFFull, v);
            hits += w.disarm();
        }
#endif
        return hits == 0;
    }

    // watch below lo (if below) and above hi (if above); returns number of armed watchpoints.
    // Per side: the largest aligned piece directly adjacent to the range (a contiguous over-access must touch it) and
    // one ROVING 8-byte piece 8..64 bytes further out, whose distance changes with `rove` from call to call, so that an
    // access which skips the adjacent bytes (the other half of a vector window, the next element but one) is met
    // by one of the repeated calls of the same transfer.
    int watch_around(const void* lo_, const void* hi_, bool below, bool above, unsigned rove = 0) {
        disarm();
        std::uintptr_t lo = reinterpret_cast<std::uintptr_t>(lo_), hi = reinterpret_cast<std::uintptr_t>(hi_);
        if (above) {
            unsigned l = piece_up(hi);
            int fd = open_bp(hi, l);
            if (fd >= 0) fd_[n_++] = fd;
            std::uintptr_t far = ((hi + l + 7) & ~std::uintptr_t(7)) + 8 * (rove % 8);
            fd = open_bp(far, 8);
            if (fd >= 0) fd_[n_++] = fd;
        }
        if (below) {
            unsigned l = piece_down(lo);
            int fd = open_bp(lo - l, l);
            if (fd >= 0) fd_[n_++] = fd;
            std::uintptr_t far = ((lo - l) & ~std::uintptr_t(7)) - 8 * (1 + (rove / 8) % 8);
            fd = open_bp(far, 8);
            if (fd >= 0) fd_[n_++] = fd;
        }
        return n_;
    }
    // watch up to four single elements (gather / scatter: elements no active lane addresses)
    int watch_elements(const void* const* p, int cnt, unsigned len) {
        disarm();
        for (int i = 0; i < cnt && n_ < 4; ++i) {
            int fd = open_bp(reinterpret_cast<std::uintptr_t>(p[i]), len);
            if (fd >= 0) fd_[n_++] = fd;
        }
        return n_;
    }
    // total number of triggers since arming; closes the watchpoints
    unsigned long disarm() {
        unsigned long total = 0;
        for (int i = 0; i < n_; ++i) {
            std::uint64_t c = 0;
            if (read(fd_[i], &c, 8) == 8) total += (unsigned long) c;
            close(fd_[i]);
        }
        n_ = 0;
        return total;
    }
};

}  // namespace vh
#endif
