#!/usr/bin/env python3
"""Preprocessor-arm extractor and coverage report (documentation tool, not part of any check).
Lists every #if/#elif/#else arm of the AVEL headers with its path condition and reports which arms
are selected by the quick configuration list, by some x86 GCC/Clang configuration at all, and by none."""
import re,glob,itertools,json,sys
root='/repo/include/avel'
files=sorted(glob.glob(root+'/**/*.hpp',recursive=True))
IMPL={'AVX10_2':['AVX10_1'],'AVX10_1':['AVX2'],'GFNI':['AVX512F'],'AVX512VBMI2':['AVX512F'],'AVX512VBMI':['AVX512F'],'AVX512BITALG':['AVX512F'],'AVX512VPOPCNTDQ':['AVX512F'],'AVX512CD':['AVX512F'],'AVX512VL':['AVX512F'],'AVX512DQ':['AVX512F'],'AVX512BW':['AVX512F'],'AVX512F':['AVX2','FMA'],'FMA':['AVX'],'AVX2':['AVX'],'AVX':['SSE4_2'],'SSE4_2':['SSE4_1','POPCNT'],'SSE4_1':['SSSE3'],'SSSE3':['SSE3'],'SSE3':['SSE2'],'SSE2':['SSE'],'SSE':['PREFETCH','X86'],'BMI2':['X86'],'BMI':['X86'],'LZCNT':['X86'],'POPCNT':['X86'],'PREFETCH':['X86']}
def close(s):
    s=set(s); ch=True
    while ch:
        ch=False
        for m in list(s):
            for t in IMPL.get(m,[]):
                if t not in s: s.add(t); ch=True
    return frozenset(s)
def ev(cond,defs,cpp):
    c=cond
    c=re.sub(r'defined\s*\(\s*([A-Za-z0-9_]+)\s*\)',lambda m:'True' if m.group(1) in defs else 'False',c)
    c=c.replace('&&',' and ').replace('||',' or ').replace('!',' not ')
    c=c.replace('__cplusplus',str(cpp))
    c=re.sub(r'(\d+)L\b',r'\1',c)
    try: return bool(eval(c))
    except Exception as e: return None
arms=[]
for f in files:
    if 'Capabilities' in f: continue
    stack=[]
    for ln,line in enumerate(open(f,errors='replace'),1):
        s=line.strip()
        m=re.match(r'#\s*(if|ifdef|ifndef|elif|else|endif)\b(.*)',s)
        if not m: continue
        k,rest=m.group(1),re.sub(r'//.*','',m.group(2)).strip()
        if k in('if','ifdef','ifndef'):
            if k=='ifdef': rest='defined(%s)'%rest
            if k=='ifndef': rest='!defined(%s)'%rest
            stack.append([rest])
        elif k=='elif': stack[-1].append(rest)
        elif k=='else': stack[-1].append('1')
        else: stack.pop(); continue
        if 'HPP' in rest: continue
        arms.append((f.replace(root+'/',''),ln,[list(x) for x in stack]))
print(len(arms),'arms (excluding include guards / Capabilities)')
def selected(arm,defs,cpp):
    for lad in arm[2]:
        for c in lad[:-1]:
            if ev(c,defs,cpp)!=False: return False
        if ev(lad[-1],defs,cpp)!=True: return False
    return True
# candidate configs
subs=['AVX512VL','AVX512BW','AVX512DQ','AVX512CD','AVX512VPOPCNTDQ','AVX512BITALG','AVX512VBMI','AVX512VBMI2','GFNI']
cands={}
chain=[[],['X86'],['POPCNT'],['LZCNT'],['BMI'],['BMI2'],['LZCNT','BMI2','POPCNT'],['SSE2'],['SSE3'],['SSSE3'],['SSE4_1'],['SSE4_2'],['AVX'],['AVX2'],['FMA'],['AVX2','FMA'],['AVX512F']]
for c in chain:
    for extra in ([],['LZCNT','BMI2']):
        cands['+'.join(c+extra) or 'none']=close(c+extra)
for r in range(0,10):
    for comb in itertools.combinations(subs,r):
        for extra in ([],['LZCNT','BMI2']):
            cands['+'.join(list(comb)+extra) or 'F']=close(['AVX512F']+list(comb)+extra)
print(len(cands),'candidate configs')
sel={}
allarms=set()
for name,defs in cands.items():
    for comp in ('GCC','CLANG'):
        for cpp in (201103,202002):
            d=set('AVEL_'+x for x in defs)|{'AVEL_'+comp}
            s=frozenset(i for i,a in enumerate(arms) if selected(a,d,cpp))
            sel[(name,comp,cpp)]=s; allarms|=s
print(len(allarms),'arms selectable by some candidate;',len(arms)-len(allarms),'never selectable')
# greedy cover
unc=set(allarms); chosen=[]
while unc:
    best=max(sel,key=lambda k:len(sel[k]&unc))
    g=len(sel[best]&unc)
    if g==0: break
    chosen.append((best,g)); unc-=sel[best]
print(len(chosen),'configs in greedy cover')
for c,g in chosen: print(g,c)
never=[arms[i] for i in range(len(arms)) if i not in allarms]
import collections
cnt=collections.Counter(a[2][-1][-1] for a in never)
print(cnt.most_common(25))
print('---- quick set coverage')
full=['AVX512VL','AVX512BW','AVX512DQ','AVX512CD','AVX512VPOPCNTDQ','AVX512BITALG','AVX512VBMI','AVX512VBMI2','GFNI','LZCNT','BMI2']
import sys as _sys, os as _os
_sys.path.insert(0, _os.path.join(_os.path.dirname(_os.path.abspath(__file__)), '..', 'lib'))
from avel import configs as _cfgs
quick=[(c.name, c.macros, 'CLANG' if c.cxx == 'clang++' else 'GCC', {'c++11': 201103, 'c++14': 201402, 'c++17': 201703, 'c++20': 202002}[c.std]) for c in _cfgs.quick_configs()]
cov=set()
for n,m,comp,cpp in quick:
    d=set('AVEL_'+x for x in close(m))|{'AVEL_'+comp}
    s=set(i for i,a in enumerate(arms) if selected(a,d,cpp))
    print(n,len(s),'new',len(s-cov)); cov|=s
print('quick covers',len(cov),'of',len(allarms))
miss=[arms[i] for i in allarms-cov]
cnt=collections.Counter((a[2][-1][-1]) for a in miss)
print(cnt.most_common(30))
