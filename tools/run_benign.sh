#!/bin/sh
# run_benign.sh <name> <property> [<property> ...]: apply a behaviour-preserving change to a scratch worktree and run the
# given quick checks against it; every one must exit 0 (no alarm on code where the property holds).
set -u
NAME="$1"; shift
WT="/var/tmp/avel_benign_$NAME"
git -C /repo worktree add -q --detach "$WT" HEAD || exit 2
git -C "$WT" apply "/verif/benign/$NAME/patch.diff" || { git -C /repo worktree remove --force "$WT"; exit 2; }
for PROP in "$@"; do
  OUT="/var/tmp/avel_benign_${NAME}_$PROP.out"
  ( cd /verif && AVEL_REPO="$WT" bin/avelcheck run "$PROP" --tier quick ) > "$OUT" 2>&1
  RC=$?
  echo "$NAME property=$PROP rc=$RC violations=$(grep -c '^VIOLATION' "$OUT") known=$(grep -c '^KNOWN-FINDING' "$OUT") $(grep -A1 '^VIOLATION' "$OUT" | grep 'rejected event' | head -1 | cut -c1-200)"
done
git -C /repo worktree remove --force "$WT"
