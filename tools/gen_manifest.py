#!/usr/bin/env python3
"""Regenerate /verif/MANIFEST.json from the table below (one source of truth)."""
import json
import os
import sys

HERE = os.path.dirname(os.path.abspath(__file__))
VERIF = os.path.dirname(HERE)
sys.path.insert(0, os.path.join(VERIF, 'lib'))
from avel import checks  # noqa: E402

TRUST = ('TLC 1.8 and the TLA+ modules under /verif/spec (checked against declarative statements on bounded instances); '
         'the harness drivers (record operands/results at the call return; no judgement in C++); GCC 12 / Clang 14; this CPU.')

TABLE = {
    'C01': ('model checking + trace validation of lane facts',
            'IntLane.tla arithmetic is model-checked against (a op b) mod 2^W on all 8-bit pairs (thorough) / lattices; every lane result of + - * unary- ++ -- and compound forms (also self-aliased: x op= x) recorded from the real code in each build configuration is judged by TLC (8-bit pairs exhaustively, 16/32/64-bit lattice^2 + complements + multiples + random). The register programs of the composed machine (Avel.tla, validated by TraceAvel.tla) are run as well; this check gives a verdict on the steps this property owns.', '7 C01'),
    'C02': ('model checking + trace validation of lane facts',
            'Comparison semantics (signed/unsigned/IEEE) model-checked for trichotomy and against native integers; every lane of every ==,!=,<,<=,>,>= result (observed through extract<I>) is judged by TLC in every configuration. The register programs of the composed machine (Avel.tla, validated by TraceAvel.tla) are run as well; this check gives a verdict on the steps this property owns.', '7 C02'),
    'C04': ('model checking + trace validation of lane facts',
            'Bitwise ops, shifts 0..W in three call forms and rotations by any amount: byte-limb semantics model-checked against multiply/divide by 2^s; recorded lane results judged by TLC for every amount and every compile-time S; per-lane amount vectors all different, uniform and periodic. The register programs of the composed machine (Avel.tla, validated by TraceAvel.tla) are run as well; this check gives a verdict on the steps this property owns.', '7 C04'),
    'C05': ('model checking + trace validation (relation by postcondition)',
            'DivRel (q*y+r=x, |r|<|y|, sign rules) is model-checked to have exactly the C++ truncating solution at 8 bits; recorded (q,r) of div, / %, /= %= are accepted by postcondition; zero divisors are placed in every lane and must neither trap nor disturb other lanes; a directed search over millions of structured pairs (quotients next to exact multiples of full-width divisors) is screened natively and every flagged pair is judged by TLC; division of computed operands (zero lanes included) is a step of the composed machine (Avel!VDiv, validated by TraceAvel.tla).', '7 C05'),
    'C06': ('model checking + trace validation of lane facts',
            'Bit-counting functions: operational byte forms model-checked against set-of-bits definitions for all 8/16-bit values; recorded lane and scalar-overload results judged by TLC. The register programs of the composed machine (Avel.tla, validated by TraceAvel.tla) are run as well; this check gives a verdict on the steps this property owns.', '7 C06'),
    'C07': ('model checking + trace validation of lane facts',
            'blend/keep/clear/set_bits, min/max/minmax/clamp, abs/neg_abs/negate, average, midpoint: model-checked against statements on unbounded integers at 8/16 bits; recorded lane and scalar results judged by TLC; blend/keep/clear/negate fed by computed masks in the composed machine (Avel.tla: TraceAvel.tla trace validation, Gen_Avel.tla behaviours replayed on the code).', '7 C07 and Part II II.1'),
    'C03': ('model checking + trace validation (facts and register programs)',
            'Mask.tla: masks as arrays of booleans; MC_Mask checks the Boolean-algebra laws and that the k-register implementation model refines the abstract array for all 2^N x 2^N register pairs, N <= 8. Conformance: every mask operation on immediate operands with ALL observers of the result recorded (extract<I>, count/any/all/none, Vector(mask), set_bits, ==), exhaustive for N <= 8, structured + random above; plus register programs (4 live masks, results feed later operations) validated by TraceMask.tla, which computes operands from its own state; plus the composed machine Avel.tla in both directions: register programs over live vectors, masks, memory and rounding mode validated by TraceAvel.tla, and TLC-simulated behaviours (Gen_Avel.tla) replayed on the real types; plus the complete state graph of Gen_Mask.tla replayed per transition.', '7 C03 and Part II II.1'),
    'C08': ('model checking + trace validation of memory events',
            'Mem.tla: load/store/gather/scatter/extract/insert on byte images; MC_Mem checks C08 on a bounded three-page memory. Conformance: every n in 0..width+2 (and 2^31, 2^32-1), every compile-time N, every lane index, four placements, aligned and unaligned forms; window contents before/after recorded and judged by TLC; partial loads and stores into one live arena as actions of the composed machine Avel.tla (TraceAvel.tla, Gen_Avel.tla).', '7 C08 and Part II II.1'),
    'C09': ('model checking + trace validation of memory events',
            'Same machine with ghost read/write footprints and page protection; access strategies exact / fault-suppressed mask / full-window RMW are model-checked (the last violates C09: vacuity guard). Conformance: transfers issued flush against PROT_NONE pages at either end, n = 0 with the pointer inside an inaccessible page, inactive gather/scatter lanes pointing into inaccessible memory, sentinel bytes around every store target, hardware data watchpoints (perf_event breakpoints) on the bytes adjacent to the addressed elements during every call (reads and writes, every configuration incl. AVX-512), memcheck below AVX-512; the family is repeated on unoptimised builds (-O0), where a full-width access the optimiser would fold into a masked one is really made; signals, watchpoint triggers and window contents recorded and judged by TLC.', '7 C09 and Part II II.4'),
    'C10': ('trace validation with correct rounding accepted by postcondition',
            'FP.tla: RoundsTo(mode, C, r) decides correct rounding through exact bignum comparisons (sum, product, quotient a/b via cmp(a, d*b), sqrt via cmp(a, d*d)); FP.tla itself is validated against an independent exact-rational oracle on labelled correct/corrupted facts (MC_FPSelf). Conformance: special-value/binade/halfway lattice squared x 4 rounding modes x float/double x every width, + random patterns, all forms; each lane result judged by TLC.', '7 C10'),
    'C11': ('trace validation by postcondition + environment facts',
            'ceil/floor/trunc/round/nearbyint/rint judged by integer-neighbourhood comparisons on exact dyadics under each of the four modes; every driver call records the rounding control / FTZ / DAZ before and after (env facts: an AVEL call must leave them unchanged); the fenv family repeats every float operation with FTZ and/or DAZ set by the caller in all four modes, so a restore that drops those bits is seen; nearbyint/rint are also called with the x87 rounding control out of step with MXCSR (the result follows MXCSR, FEnv!CurrentMode); the environment facts of the integer operation families are judged here too.', '7 C11 and Part II'),
    'C12': ('trace validation by postcondition',
            'frexp/ldexp/scalbn/ilogb/logb/frac/fmax/fmin/fdim on exponent fields and exact dyadics (ldexp through RoundsTo with the exponent swept over the whole range incl. INT_MIN/INT_MAX). The register programs of the composed machine (Avel.tla, validated by TraceAvel.tla) are run as well; this check gives a verdict on the steps this property owns.', '7 C12'),
    'C13': ('trace validation of lane facts',
            'Classification and quiet comparisons as pure field tests; platform FP_* constants are mapped to names by the driver; every lattice / random pattern judged by TLC; classification predicates as mask producers in the float register programs. The register programs of the composed machine (Avel.tla, validated by TraceAvel.tla) are run as well; this check gives a verdict on the steps this property owns.', '7 C13'),
    'C14': ('trace validation of object histories',
            'Denom.tla / TraceDenom.tla: the specification keeps den[id] = divisor given at construction and judges every later div, / %, /= %=, value() against its own state with DivRel; all (n, d) at 8 bits, adversarial numerators per divisor above, carry-chain numerators for limb-wise multiply-high; a signal during construction or use is a rejected event; copy construction and copy assignment are events too (den[id] := den[from]): every object is copied, and assigned over an older object that held another divisor, then both are used.', '7 C14 and Part II'),
    'C15': ('trace validation of object histories',
            'Vector denominators built from per-lane divisors (a different divisor in every lane) and broadcast from a scalar denominator; per-lane DivRel; missing or inaccessible members are recorded as events the specification rejects; copies and assignments of vector denominators as in C14.', '7 C15 and Part II'),
    'C16': ('model checking + trace validation of lane facts',
            'The scalar overloads are judged by the same lane semantics as the vector lanes (so scalar = lane follows through the specification), in every subset of the scalar feature macros (thorough) / a covering selection (quick); mixed-sign cmp_* model-checked against comparison of mathematical integers at 8 bits; literal-argument calls catch results that differ under constant folding.', '7 C16'),
    'C17': ('model checking + trace validation of lane facts',
            'convert<V0>, converting constructors, mask conversions (all observers), width-1 conversions between element sizes (= static_cast on bytes), bit_cast; 8/16-bit values exhaustively. The register programs of the composed machine (Avel.tla, validated by TraceAvel.tla) are run as well; this check gives a verdict on the steps this property owns.', '7 C17'),
    'C18': ('model checking + trace validation of allocator histories',
            'MC_Alloc: the three implementations over a nondeterministic system heap, all placements, adversarial user writes (vacuity guard: an offset word inside the user range is caught). Conformance: seeded allocate/fill/deallocate histories on 22 (T, A) instantiations in 8 builds (C++11..20, SSE, clang, UBSan), system allocator calls observed by link-time interposition, validated by TraceAlloc.tla (alignment, containment, disjointness, exact frees, intact fill patterns, no leak); plus TLC -> code: the complete state graph of the abstract history machine Gen_Alloc.tla (6 sizes incl. 0, up to 3 live blocks) replayed as one mini-history per transition; plus one request above 4 GiB per instantiation.', '7 C18 and Part II II.1'),
    'C19': ('model checking + trace validation of compile/link probes',
            'Config.tla: documented implication closure, type table, alias widths (MC_Config: closure laws, monotonicity). "Replaying a configuration" = compiling it: probe TUs per macro set, explicitly named and with AVEL_AUTO_DETECT + matching flags, GCC/Clang, C++11..20; standalone header inclusion; API table (operation well-formed for width 1 => declared and linkable for every wider vector) from a detection + link probe; all observations judged by TLC.', '7 C19'),
    'C20': ('model checking + trace validation',
            'Prefetch as an action with empty footprint in MC_Mem; conformance over pointer class x offset x count x level x read/write x typed/untyped with guard pages and a before/after snapshot of the accessible page.', '7 C20'),
}

NOT_YET = 'check under construction in this round (specification module and driver not yet committed)'


def main():
    props = [json.loads(l)['id'] for l in open(os.path.join(VERIF, 'properties.jsonl'))]
    chk = []
    na = []
    for p in props:
        if p in TABLE and p in checks.CHECKS:
            tech, text, ref = TABLE[p]
            chk.append({
                'property_id': p,
                'quick_cmd': 'bin/avelcheck run %s --tier quick' % p,
                'thorough_cmd': 'bin/avelcheck run %s --tier thorough' % p,
                'evidence_file': 'evidence/%s.json' % p,
                'replay_cmd_template': 'bin/avelcheck replay {path}',
                'engine': 'avelcheck',
                'level_claimed': {'category': 'model_checking', 'text': text, 'design_ref': 'DESIGN.md section ' + ref},
                'level_note': TRUST,
                'technique': 'explicit TLA+ specification; TLC ' + tech,
            })
        else:
            na.append({'property_id': p, 'reason': NOT_YET})
    m = {
        'version': 1,
        'setup_cmd': 'bin/avelcheck setup',
        'hooks': {
            'guard': 'AVEL_VERIF',
            'enable': 'no source hooks are needed: the abstract state is observable through the public API and the allocator through link-time interposition (-Wl,--wrap=malloc,...); the guard name is reserved',
            'baseline_off_cmd': 'cmake --build /repo/_build && /repo/_build/tests/AVEL_TESTS',
            'source_commits': [],
            'add_only': True,
        },
        'engines': [{
            'name': 'avelcheck', 'path': 'bin/avelcheck',
            'serves_properties': [c['property_id'] for c in chk],
            'kind_free_text': 'python orchestrator: builds drivers from /repo per build configuration, records traces, runs TLC (model checking of spec/*.tla and trace validation), replays TLC-generated behaviours',
        }],
        'checks': chk,
        'not_applicable': na,
        'notes': 'exit 2 from a check = harness error (compiler/TLC/driver failure), never a verdict. Scratch space under /var/tmp, build cache under /verif/build (content-addressed on /repo/include).',
    }
    with open(os.path.join(VERIF, 'MANIFEST.json'), 'w') as f:
        json.dump(m, f, indent=1)
    print('MANIFEST.json: %d checks, %d not applicable' % (len(chk), len(na)))


if __name__ == '__main__':
    main()
