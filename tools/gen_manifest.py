#!/usr/bin/env python3
"""Regenerate /verif/MANIFEST.json from the table below (one source of truth)."""
import json
import os
import sys

HERE = os.path.dirname(os.path.abspath(__file__))
VERIF = os.path.dirname(HERE)
sys.path.insert(0, os.path.join(VERIF, 'lib'))
from avel import checks  # noqa: E402

TRUST = ('TLC 1.8 and the TLA+ modules under /verif/spec (checked against declarative statements on bounded instances); '
         'the harness drivers (record operands/results at the call return; no judgement in C++); GCC 12 / Clang 14; this CPU.')

TABLE = {
    'C01': ('model checking + trace validation of lane facts',
            'IntLane.tla arithmetic is model-checked against (a op b) mod 2^W on all 8-bit pairs (thorough) / lattices; every lane result of + - * unary- ++ -- and compound forms recorded from the real code in each build configuration is judged by TLC (8-bit pairs exhaustively, 16/32/64-bit lattice^2 + random).', '7 C01'),
    'C02': ('model checking + trace validation of lane facts',
            'Comparison semantics (signed/unsigned/IEEE) model-checked for trichotomy and against native integers; every lane of every ==,!=,<,<=,>,>= result (observed through extract<I>) is judged by TLC in every configuration.', '7 C02'),
    'C04': ('model checking + trace validation of lane facts',
            'Bitwise ops, shifts 0..W in three call forms and rotations by any amount: byte-limb semantics model-checked against multiply/divide by 2^s; recorded lane results judged by TLC for every amount and every compile-time S.', '7 C04'),
    'C05': ('model checking + trace validation (relation by postcondition)',
            'DivRel (q*y+r=x, |r|<|y|, sign rules) is model-checked to have exactly the C++ truncating solution at 8 bits; recorded (q,r) of div, / %, /= %= are accepted by postcondition; zero divisors are placed in every lane and must neither trap nor disturb other lanes.', '7 C05'),
    'C06': ('model checking + trace validation of lane facts',
            'Bit-counting functions: operational byte forms model-checked against set-of-bits definitions for all 8/16-bit values; recorded lane and scalar-overload results judged by TLC.', '7 C06'),
    'C07': ('model checking + trace validation of lane facts',
            'blend/keep/clear/set_bits, min/max/minmax/clamp, abs/neg_abs/negate, average, midpoint: model-checked against statements on unbounded integers at 8/16 bits; recorded lane and scalar results judged by TLC.', '7 C07'),
}

NOT_YET = 'check under construction in this round (specification module and driver not yet committed)'


def main():
    props = [json.loads(l)['id'] for l in open(os.path.join(VERIF, 'properties.jsonl'))]
    chk = []
    na = []
    for p in props:
        if p in TABLE and p in checks.CHECKS:
            tech, text, ref = TABLE[p]
            chk.append({
                'property_id': p,
                'quick_cmd': 'bin/avelcheck run %s --tier quick' % p,
                'thorough_cmd': 'bin/avelcheck run %s --tier thorough' % p,
                'evidence_file': 'evidence/%s.json' % p,
                'replay_cmd_template': 'bin/avelcheck replay {path}',
                'engine': 'avelcheck',
                'level_claimed': {'category': 'model_checking', 'text': text, 'design_ref': 'DESIGN.md section ' + ref},
                'level_note': TRUST,
                'technique': 'explicit TLA+ specification; TLC ' + tech,
            })
        else:
            na.append({'property_id': p, 'reason': NOT_YET})
    m = {
        'version': 1,
        'setup_cmd': 'bin/avelcheck setup',
        'hooks': {
            'guard': 'AVEL_VERIF',
            'enable': 'no source hooks are needed: the abstract state is observable through the public API and the allocator through link-time interposition (-Wl,--wrap=malloc,...); the guard name is reserved',
            'baseline_off_cmd': 'cmake --build /repo/_build && /repo/_build/tests/AVEL_TESTS',
            'source_commits': [],
            'add_only': True,
        },
        'engines': [{
            'name': 'avelcheck', 'path': 'bin/avelcheck',
            'serves_properties': [c['property_id'] for c in chk],
            'kind_free_text': 'python orchestrator: builds drivers from /repo per build configuration, records traces, runs TLC (model checking of spec/*.tla and trace validation), replays TLC-generated behaviours',
        }],
        'checks': chk,
        'not_applicable': na,
        'notes': 'exit 2 from a check = harness error (compiler/TLC/driver failure), never a verdict. Scratch space under /var/tmp, build cache under /verif/build (content-addressed on /repo/include).',
    }
    with open(os.path.join(VERIF, 'MANIFEST.json'), 'w') as f:
        json.dump(m, f, indent=1)
    print('MANIFEST.json: %d checks, %d not applicable' % (len(chk), len(na)))


if __name__ == '__main__':
    main()
