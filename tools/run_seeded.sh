#!/bin/sh
# run_seeded.sh <name> [property]: apply a seeded change to a scratch worktree of /repo (never to /repo itself), run the
# registered quick check of its property against that tree (AVEL_REPO), report whether it raised a VIOLATION.
set -u
NAME="$1"
PROP="${2:-$(echo "$NAME" | cut -d- -f1)}"
WT="/var/tmp/avel_seeded_$NAME"
git -C /repo worktree add -q --detach "$WT" HEAD || exit 2
git -C "$WT" apply "/verif/seeded/$NAME/patch.diff" || { git -C /repo worktree remove --force "$WT"; exit 2; }
OUT="/var/tmp/avel_seeded_$NAME.out"
( cd /verif && AVEL_REPO="$WT" bin/avelcheck run "$PROP" --tier quick ) > "$OUT" 2>&1
RC=$?
V=$(grep -c '^VIOLATION' "$OUT")
echo "$NAME property=$PROP rc=$RC violations=$V $(grep -A1 '^VIOLATION' "$OUT" | grep 'rejected event' | head -1 | cut -c1-220)"
git -C /repo worktree remove --force "$WT"
