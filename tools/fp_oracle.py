#!/usr/bin/env python3
"""Independent exact-rational IEEE-754 oracle (python Fractions) used ONLY to
validate the TLA+ floating-point specification itself: it writes labelled
facts (correct ones and deliberately corrupted ones) that spec/MC_FPSelf.tla
must judge exactly as labelled.  It never judges AVEL.

usage: fp_oracle.py <n> <seed> <out.ndjson>
"""
import json
import math
import random
import sys
from fractions import Fraction

FMT = {4: dict(P=24, EB=8, bias=127), 8: dict(P=53, EB=11, bias=1023)}


def fields(bits, L):
    f = FMT[L]
    P, EB = f['P'], f['EB']
    s = bits >> (8 * L - 1)
    x = (bits >> (P - 1)) & ((1 << EB) - 1)
    fr = bits & ((1 << (P - 1)) - 1)
    return s, x, fr


def isnan(b, L):
    s, x, fr = fields(b, L)
    return x == (1 << FMT[L]['EB']) - 1 and fr != 0


def isinf(b, L):
    s, x, fr = fields(b, L)
    return x == (1 << FMT[L]['EB']) - 1 and fr == 0


def iszero(b, L):
    return b & ((1 << (8 * L - 1)) - 1) == 0


def val(bits, L):
    f = FMT[L]
    s, x, fr = fields(bits, L)
    if x == 0:
        v = Fraction(fr) * Fraction(2) ** (1 - f['bias'] - (f['P'] - 1))
    else:
        v = Fraction(fr + (1 << (f['P'] - 1))) * Fraction(2) ** (x - f['bias'] - (f['P'] - 1))
    return -v if s else v


def inf_bits(L):
    f = FMT[L]
    return ((1 << f['EB']) - 1) << (f['P'] - 1)


def magv(p, L):
    return Fraction(2) ** (FMT[L]['bias'] + 1) if p == inf_bits(L) else val(p, L)


def floor_pattern(le, L):
    """largest magnitude pattern p (<= inf) such that le(p) holds; le is monotone."""
    lo, hi = 0, inf_bits(L)
    while lo < hi:
        mid = (lo + hi + 1) // 2
        if le(mid):
            lo = mid
        else:
            hi = mid - 1
    return lo


def round_mag(cmp_mag, s, mode, L):
    """cmp_mag(p) = sign(|v| - magv(p)); returns bits of the correctly rounded result."""
    sb = s << (8 * L - 1)
    fl = floor_pattern(lambda p: cmp_mag(p) >= 0, L)
    INF = inf_bits(L)
    if fl == INF:
        up = (mode == 'RN') or (mode == 'RD' and s) or (mode == 'RU' and not s)
        return sb | (INF if up else INF - 1)
    if cmp_mag(fl) == 0:
        return sb | fl
    ce = fl + 1
    if mode == 'RN':
        # compare |v| with the midpoint (exactly): 2|v| vs fl+ce
        c = cmp_mag.mid(fl, ce)
        if c < 0:
            res = fl
        elif c > 0:
            res = ce
        else:
            res = fl if fl % 2 == 0 else ce
    elif mode == 'RZ':
        res = fl
    elif mode == 'RD':
        res = ce if s else fl
    else:
        res = fl if s else ce
    return sb | res


class CmpVal(object):
    def __init__(self, a, L):
        self.a, self.L = a, L

    def __call__(self, p):
        m = magv(p, self.L)
        return (self.a > m) - (self.a < m)

    def mid(self, fl, ce):
        m = (magv(fl, self.L) + magv(ce, self.L)) / 2
        return (self.a > m) - (self.a < m)


class CmpSqrt(object):
    def __init__(self, a, L):
        self.a, self.L = a, L

    def __call__(self, p):
        m = magv(p, self.L) ** 2
        return (self.a > m) - (self.a < m)

    def mid(self, fl, ce):
        m = ((magv(fl, self.L) + magv(ce, self.L)) / 2) ** 2
        return (self.a > m) - (self.a < m)


def rnd(v, mode, L):
    s = 1 if v < 0 else 0
    return round_mag(CmpVal(abs(v), L), s, mode, L)


QNAN = {4: 0x7fc00000, 8: 0x7ff8000000000000}


def arith(op, mode, a, b, L):
    """returns result bits or 'nan'"""
    S = 1 << (8 * L - 1)
    if op == 'sub':
        if isnan(b, L):
            return 'nan'
        return arith('add', mode, a, b ^ S, L)
    if isnan(a, L) or (op != 'sqrt' and isnan(b, L)):
        return 'nan'
    sa, sb_ = a >> (8 * L - 1), b >> (8 * L - 1)
    if op == 'add':
        if isinf(a, L) or isinf(b, L):
            if isinf(a, L) and isinf(b, L) and sa != sb_:
                return 'nan'
            return a if isinf(a, L) else b
        v = val(a, L) + val(b, L)
        if v == 0:
            sg = sa if sa == sb_ else (1 if mode == 'RD' else 0)
            return sg << (8 * L - 1)
        return rnd(v, mode, L)
    if op == 'mul':
        vs = sa ^ sb_
        if isinf(a, L) or isinf(b, L):
            if iszero(a, L) or iszero(b, L):
                return 'nan'
            return (vs << (8 * L - 1)) | inf_bits(L)
        v = val(a, L) * val(b, L)
        if v == 0:
            return vs << (8 * L - 1)
        return rnd(v, mode, L)
    if op == 'fdiv':
        vs = sa ^ sb_
        if isinf(a, L):
            return 'nan' if isinf(b, L) else (vs << (8 * L - 1)) | inf_bits(L)
        if isinf(b, L):
            return vs << (8 * L - 1)
        if iszero(b, L):
            return 'nan' if iszero(a, L) else (vs << (8 * L - 1)) | inf_bits(L)
        if iszero(a, L):
            return vs << (8 * L - 1)
        return rnd(val(a, L) / val(b, L), mode, L)
    if op == 'sqrt':
        if iszero(a, L):
            return a
        if sa:
            return 'nan'
        if isinf(a, L):
            return a
        return round_mag(CmpSqrt(val(a, L), L), 0, mode, L)
    raise ValueError(op)


def to_integral(fn, mode, a, L):
    if isnan(a, L):
        return 'nan'
    if isinf(a, L):
        return a
    v = val(a, L)
    if v.denominator == 1:
        return a
    how = {'ceil': 'ceil', 'floor': 'floor', 'trunc': 'trunc', 'round': 'round'}.get(fn)
    if how is None:
        how = {'RN': 'even', 'RD': 'floor', 'RU': 'ceil', 'RZ': 'trunc'}[mode]
    fl = math.floor(v)
    if how == 'floor':
        r = fl
    elif how == 'ceil':
        r = fl + 1
    elif how == 'trunc':
        r = fl if v > 0 else fl + 1
    else:
        d = v - fl
        if d < Fraction(1, 2):
            r = fl
        elif d > Fraction(1, 2):
            r = fl + 1
        elif how == 'round':
            r = fl + 1 if v > 0 else fl
        else:
            r = fl if fl % 2 == 0 else fl + 1
    if r == 0:
        return (a >> (8 * L - 1)) << (8 * L - 1)     # libm keeps the sign; the spec accepts either
    return rnd(Fraction(r), 'RN', L)


def ilog(a, L):
    v = abs(val(a, L))
    e = 0
    # floor(log2 v)
    n, d = v.numerator, v.denominator
    e = n.bit_length() - d.bit_length()
    if Fraction(2) ** e > v:
        e -= 1
    return e


def le_bytes(bits, L):
    return [(bits >> (8 * i)) & 255 for i in range(L)]


def int_bytes(v, L):
    return le_bytes(v & ((1 << (8 * L)) - 1), L)


SPECIAL32 = [0, 1, 2, 0x7fffff, 0x800000, 0x800001, 0x7f7fffff, 0x7f7ffffe, 0x3f800000, 0x3f7fffff, 0x3f800001,
             0x4b000000, 0x4b7fffff, 0x4b800000, 0x00ffffff, 0x34000000, 0x33800000, 0x3f000000, 0x3effffff,
             0x3fc00000, 0x40200000, 0x40600000, 0x4affffff, 0x4a800001, 0x7f800000, 0x7fc00000, 0x7f800001, 0x7fffffff]
SPECIAL64 = [0, 1, 2, 0xfffffffffffff, 0x10000000000000, 0x10000000000001, 0x7fefffffffffffff, 0x7feffffffffffffe,
             0x3ff0000000000000, 0x3fefffffffffffff, 0x3ff0000000000001, 0x4330000000000000, 0x433fffffffffffff,
             0x4340000000000000, 0x3fe0000000000000, 0x3fdfffffffffffff, 0x3ff8000000000000, 0x4004000000000000,
             0x432fffffffffffff, 0x4320000000000001, 0x7ff0000000000000, 0x7ff8000000000000, 0x7ff0000000000001,
             0x7fffffffffffffff, 0x3ca0000000000000, 0x3c90000000000000]


def rand_bits(rng, L):
    f = FMT[L]
    P, EB = f['P'], f['EB']
    sp = SPECIAL32 if L == 4 else SPECIAL64
    r = rng.random()
    if r < 0.3:
        b = rng.choice(sp)
    elif r < 0.6:
        fr = rng.choice([0, 1, (1 << (P - 1)) - 1, 1 << (P - 2), (1 << (P - 2)) - 1, rng.getrandbits(P - 1)])
        b = (rng.randrange(0, (1 << EB) - 1) << (P - 1)) | fr
    elif r < 0.8:
        # around 1.0 .. 2^P: where rounding to integer is interesting
        ex = f['bias'] + rng.randrange(-3, P + 2)
        b = (ex << (P - 1)) | rng.choice([0, 1, 1 << (P - 2), (1 << (P - 2)) + 1, (1 << (P - 2)) - 1, rng.getrandbits(P - 1),
                                         ((1 << (P - 1)) - 1) ^ rng.getrandbits(3)])
    else:
        b = rng.randrange(0, inf_bits(L))
    return b | (rng.getrandbits(1) << (8 * L - 1))


def corrupt(r, rng, L):
    S = 1 << (8 * L - 1)
    c = rng.choice(['up', 'down', 'sign'])
    mag = r & (S - 1)
    if c == 'sign':
        return r ^ S
    if c == 'up' and mag < inf_bits(L):
        return r + 1
    if mag > 0:
        return r - 1
    return r + 1


def main():
    n, seed, out = int(sys.argv[1]), int(sys.argv[2]), sys.argv[3]
    rng = random.Random(seed)
    MODES = ['RN', 'RZ', 'RD', 'RU']
    ILOGB0, ILOGBNAN, INTMAX = -2147483648, -2147483648, 2147483647
    with open(out, 'w') as f:
        for i in range(n):
            L = rng.choice([4, 8])
            S = 1 << (8 * L - 1)
            op = rng.choice(['add', 'sub', 'mul', 'fdiv', 'sqrt', 'ceil', 'floor', 'trunc', 'round', 'nearbyint', 'rint',
                             'ldexp', 'frexp', 'ilogb', 'logb', 'fdim', 'frac', 'add', 'mul', 'fdiv'])
            rm = rng.choice(MODES)
            a, b = rand_bits(rng, L), rand_bits(rng, L)
            e = {'o': op, 'k': 'f', 'rm': rm, 'a': le_bytes(a, L), 'sig': 'none'}
            good = True
            if op in ('add', 'sub') and rng.random() < 0.3:
                b = ((a ^ (S if op == 'add' else 0)) + rng.choice([-2, -1, 0, 1, 2, 1 << (FMT[L]['P'] - 1), -(1 << (FMT[L]['P'] - 1))])) & ((1 << (8 * L)) - 1)
            if op in ('add', 'sub', 'mul', 'fdiv', 'fdim'):
                e['b'] = le_bytes(b, L)
            if op in ('add', 'sub', 'mul', 'fdiv', 'sqrt'):
                r = arith(op, rm, a, b, L)
            elif op in ('ceil', 'floor', 'trunc', 'round', 'nearbyint', 'rint'):
                r = to_integral(op, rm, a, L)
            elif op == 'ldexp':
                ex = rng.choice([0, 1, -1, 5, -5, 24, -24, 53, -53, 127, -126, -149, -150, 1023, -1022, -1074, -1075, 2000, -2200,
                                 rng.randrange(-300, 300), rng.randrange(-2300, 2300), 2147483647, -2147483648])
                XL = 4 if L == 4 else 8
                e['ex'] = int_bytes(ex, XL)
                if isnan(a, L):
                    r = 'nan'
                elif isinf(a, L) or iszero(a, L):
                    r = a
                else:
                    exc = max(-5000, min(5000, ex))
                    r = rnd(val(a, L) * Fraction(2) ** exc, rm, L)
            elif op == 'frexp':
                XL = 4 if L == 4 else 8
                if isnan(a, L):
                    r, ex = 'nan', 0
                elif isinf(a, L) or iszero(a, L):
                    r, ex = a, 0
                else:
                    ex = ilog(a, L) + 1
                    r = rnd(val(a, L) / Fraction(2) ** ex, 'RN', L)
                e['ex'] = int_bytes(ex, XL)
                if rng.random() < 0.1 and not (isnan(a, L) or isinf(a, L)):
                    e['ex'] = int_bytes(ex + rng.choice([-1, 1]), XL)
                    good = False
            elif op == 'ilogb':
                XL = 4 if L == 4 else 8
                e['c0'], e['cnan'], e['cinf'] = int_bytes(ILOGB0, XL), int_bytes(ILOGBNAN, XL), int_bytes(INTMAX, XL)
                if isnan(a, L):
                    iv = ILOGBNAN
                elif isinf(a, L):
                    iv = INTMAX
                elif iszero(a, L):
                    iv = ILOGB0
                else:
                    iv = ilog(a, L)
                if rng.random() < 0.15:
                    iv += rng.choice([-1, 1])
                    good = False
                e['r'] = int_bytes(iv, XL)
                e['good'] = good
                f.write(json.dumps(e) + '\n')
                continue
            elif op == 'logb':
                if isnan(a, L):
                    r = 'nan'
                elif isinf(a, L):
                    r = inf_bits(L)
                elif iszero(a, L):
                    r = S | inf_bits(L)
                else:
                    r = rnd(Fraction(ilog(a, L)), 'RN', L) if ilog(a, L) != 0 else 0
            elif op == 'fdim':
                if isnan(a, L) or isnan(b, L):
                    r = 'nan'
                else:
                    gt = (isinf(a, L) and not (a >> (8 * L - 1)) and not (isinf(b, L) and not (b >> (8 * L - 1)))) or \
                         (not isinf(a, L) and isinf(b, L) and (b >> (8 * L - 1))) or \
                         (not isinf(a, L) and not isinf(b, L) and val(a, L) > val(b, L))
                    if isinf(a, L) and (a >> (8 * L - 1)):
                        gt = False
                    r = arith('sub', rm, a, b, L) if gt else 0
            elif op == 'frac':
                if isnan(a, L) or isinf(a, L):
                    r = 'nan'
                else:
                    v = val(a, L)
                    t = math.floor(abs(v))
                    fr = abs(v) - t
                    r = 0 if fr == 0 else rnd(-fr if v < 0 else fr, 'RN', L)
            if r == 'nan':
                rb = QNAN[L] | (rng.getrandbits(1) << (8 * L - 1))
                if rng.random() < 0.1:
                    rb = rng.choice([0, inf_bits(L), 1])
                    good = False
            else:
                rb = r
                if rng.random() < 0.15:
                    rb2 = corrupt(rb, rng, L)
                    # corruptions the specification legitimately tolerates are not "bad" facts
                    tolerated = (op in ('ceil', 'floor', 'trunc', 'round', 'nearbyint', 'rint', 'frac', 'logb', 'fdim') and iszero(rb, L) and iszero(rb2, L)) or op == 'ldexp'
                    if not tolerated:
                        rb = rb2
                        good = False
            e['r'] = le_bytes(rb, L)
            e['good'] = good
            f.write(json.dumps(e) + '\n')


if __name__ == '__main__':
    main()
