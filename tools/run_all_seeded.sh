#!/bin/bash
# run_all_seeded.sh [streams]: run the registered quick check of its property against every seeded change (scratch
# worktrees, never /repo), record the outcome in seeded/<name>/meta.json ("detected_by") and write seeded/DETECTION.md.
# Changes whose meta.json says status=superseded are skipped.
STREAMS=${1:-2}
cd /verif
OUT=/var/tmp/avel_all_seeded.txt
[ "${RESUME:-0}" = 1 ] || rm -f $OUT          # RESUME=1: keep the results so far, run only what is missing
touch $OUT
ls seeded | grep -v DETECTION > /var/tmp/avel_all_seeded.list
python3 - <<'PY'
import json
keep=[]
for n in open('/var/tmp/avel_all_seeded.list').read().split():
    m=json.load(open('/verif/seeded/%s/meta.json'%n))
    done=set(l.split()[0] for l in open('/var/tmp/avel_all_seeded.txt') if ' rc=' in l)
    if m.get('status')!='superseded' and n not in done: keep.append(n)
open('/var/tmp/avel_all_seeded.list','w').write('\n'.join(keep)+'\n')
PY
split -n r/$STREAMS /var/tmp/avel_all_seeded.list /var/tmp/avel_all_seeded.part_
for f in /var/tmp/avel_all_seeded.part_*; do
  ( while read n; do sh tools/run_seeded.sh $n 2>&1 | tail -1 >> $OUT; done < $f ) &
done
wait
python3 - <<'PY'
import json,re,os
rows=[]
for ln in open('/var/tmp/avel_all_seeded.txt'):
    m=re.match(r'(\S+) property=(\S+) rc=(\d+) violations=(\d+)\s*(.*)',ln)
    if not m: continue
    name,prop,rc,v,ex=m.group(1),m.group(2),int(m.group(3)),int(m.group(4)),m.group(5)
    p='/verif/seeded/%s/meta.json'%name
    meta=json.load(open(p))
    meta['detected_by']={'check':'bin/avelcheck run %s --tier quick (tools/run_seeded.sh %s)'%(prop,name),'exit_code':rc,'violation_signatures':v,'example':ex[:300]}
    json.dump(meta,open(p,'w'),indent=1)
    rows.append((name,prop,meta.get('what','')[:140].replace('|','/').replace('\n',' '),meta.get('needs','')[:120].replace('|','/').replace('\n',' '),'exit %d, %d VIOLATION signature(s)'%(rc,v) if rc==1 else 'exit %d: NOT reported'%rc))
rows.sort(key=lambda r:(r[1],r[0]))
with open('/verif/seeded/DETECTION.md','w') as f:
    f.write('# Seeded changes and what the registered quick checks report for them\n\nWritten by tools/run_all_seeded.sh from the runs (scratch worktree per change, `AVEL_REPO` points the check at it).\n\n')
    f.write('%d changes, %d reported as VIOLATION.\n\n'%(len(rows),sum(1 for r in rows if r[4].startswith('exit 1'))))
    f.write('| seeded change | breaks | what was changed | needs | quick check of the property |\n|---|---|---|---|---|\n')
    for r in rows: f.write('| %s | %s | %s | %s | %s |\n'%r)
print(open('/verif/seeded/DETECTION.md').read()[:600])
PY
