#!/usr/bin/env python3
"""import_seeded.py <agent-worktree> <round-text>: copy the mutants an independent sub-agent left under
<worktree>/mutants/<ID>/ to /verif/seeded/<ID>-<agent>/, confirm each independently (tools/verify_seeded.sh) and
write meta.json.  Detection is recorded separately by tools/record_detection.py."""
import json
import os
import shutil
import subprocess
import sys

wt = sys.argv[1].rstrip('/')
origin = sys.argv[2]
agent = os.path.basename(wt)
for pid in sorted(os.listdir(os.path.join(wt, 'mutants'))):
    src = os.path.join(wt, 'mutants', pid)
    if not os.path.exists(os.path.join(src, 'patch.diff')):
        continue
    name = '%s-%s' % (pid, agent)
    dst = os.path.join('/verif/seeded', name)
    os.makedirs(dst, exist_ok=True)
    for f in ('patch.diff', 'demo.cpp', 'demo_cmd.txt'):
        shutil.copy(os.path.join(src, f), os.path.join(dst, f))
    try:
        summ = json.load(open(os.path.join(src, 'summary.json')))
    except Exception as e:
        summ = {'what': '(summary.json unreadable: %s)' % e, 'needs': ''}
    p = subprocess.run(['sh', '/verif/tools/verify_seeded.sh', name], stdout=subprocess.PIPE, stderr=subprocess.STDOUT, universal_newlines=True)
    line = [l for l in p.stdout.splitlines() if l.startswith(name)]
    res = line[-1] if line else p.stdout[-300:]
    meta = {'name': name, 'property': pid, 'what': summ.get('what', ''), 'needs': summ.get('needs', ''), 'origin': origin,
            'confirmed': {'how': 'tools/verify_seeded.sh ' + name, 'result': res}}
    json.dump(meta, open(os.path.join(dst, 'meta.json'), 'w'), indent=1)
    print(res)
