#!/usr/bin/env python3
"""summarise TLC rejections of a fact file: rejsum.py <facts> <prov> <tlc-out>"""
import sys, re, json, collections, struct
L = open(sys.argv[1]).read().split('\n'); P = open(sys.argv[2]).read().split('\n')
def fl(b):
    try:
        return struct.unpack('<f' if len(b) == 4 else '<d', bytes(b))[0]
    except Exception:
        return b
c = collections.Counter(); ex = {}
for m in re.finditer(r'REJECT", (\d+)', open(sys.argv[3]).read()):
    i = int(m.group(1)) - 1; e = json.loads(L[i]); t, lane, form = P[i].split(':')
    k = (e['o'], t, form, e.get('rm'))
    c[k] += 1
    if k not in ex:
        d = dict(e)
        if e.get('k') == 'f':
            for f in ('a', 'b', 'c', 'r'):
                if isinstance(d.get(f), list): d[f + '_'] = fl(d[f])
        ex[k] = d
for k, v in c.most_common(int(sys.argv[4]) if len(sys.argv) > 4 else 40):
    print(v, k, json.dumps(ex[k])[:360])
