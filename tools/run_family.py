#!/usr/bin/env python3
"""run_family.py <property> <function> [cfg,cfg]: run ONE conformance family of lib/avel/checks.py (e.g. prog_traces)
under the bookkeeping of a property, against $AVEL_REPO (default /repo).  Diagnostic tool: prints what `avelcheck run`
would print for that part alone; writes no evidence."""
import os
import sys
sys.path.insert(0, os.path.join(os.path.dirname(os.path.abspath(__file__)), '..', 'lib'))
from avel import checks, runner, build   # noqa: E402

prop, fn = sys.argv[1], sys.argv[2]
only = sys.argv[3].split(',') if len(sys.argv) > 3 else None
ctx = runner.Ctx(prop, os.environ.get('VERIF_TIER', 'quick'), int(os.environ.get('VERIF_SEED', '1')), only_cfgs=only)
try:
    getattr(checks, fn)(ctx)
    for k, d in sorted(ctx.kf_hits.items()):
        print('KNOWN-FINDING', k, d['n'])
    for v in ctx.violations:
        print('VIOLATION-SIG %s x%d %s' % (v['sig'], v['count'], runner.brief(v['event'])[:300]))
    print('notes:', ctx.notes, 'violations:', len(ctx.violations))
finally:
    ctx.cleanup()
