#!/usr/bin/env python3
"""aggregate an AVEL_REJLOG file: rejagg.py <file> [max]"""
import sys, json, collections, struct
def fl(b):
    try: return struct.unpack('<f' if len(b) == 4 else '<d', bytes(b))[0]
    except Exception: return None
agg = collections.OrderedDict()
for l in open(sys.argv[1]):
    d = json.loads(l); e = d['event']
    types = sorted(set(p.split(':')[0] for _, p in d['occ']))
    forms = sorted(set(p.split(':')[-1] for _, p in d['occ']))
    cfgs = sorted(set(c.split('/')[0] for c, _ in d['occ']))
    k = (e.get('o') or e.get('e'), e.get('k'), len(e['a']) * 8 if isinstance(e.get('a'), list) else None, tuple(types), tuple(cfgs), tuple(forms))
    a = agg.setdefault(k, {'n': 0, 'rm': set(), 'ex': None})
    a['n'] += 1; a['rm'].add(e.get('rm'))
    if a['ex'] is None:
        x = dict(e)
        if e.get('k') == 'f':
            for f in ('a', 'b', 'c', 'r'):
                if isinstance(x.get(f), list) and len(x[f]) in (4, 8): x[f] = fl(x[f])
        a['ex'] = x
mx = int(sys.argv[2]) if len(sys.argv) > 2 else 60
for k, a in sorted(agg.items(), key=lambda kv: -kv[1]['n'])[:mx]:
    print(a['n'], k[0], k[2], 'types=' + ','.join(k[3]), 'cfgs=' + ','.join(k[4]), 'forms=' + ','.join(k[5]), 'rm=' + ','.join(sorted(str(x) for x in a['rm'])))
    print('     ', json.dumps(a['ex'])[:230])
