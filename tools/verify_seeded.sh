#!/bin/sh
# verify_seeded.sh <name>: confirm a seeded change independently in a scratch worktree:
#   demo passes on the unmodified tree, fails with the patch, pinned suite still passes with the patch.
set -u
NAME="$1"
DIR="/verif/seeded/$NAME"
WT="/tmp/mut/v_$NAME"
AG=$(sed -n 's/.*-I\(\/tmp\/mut\/a[0-9]*\)\/include.*/\1/p' "$DIR/demo_cmd.txt" | head -1)
git -C /repo worktree add -q --detach "$WT" HEAD || exit 2
mkdir -p "$WT/mutants/x"; cp "$DIR/demo.cpp" "$WT/mutants/x/"
PROP=$(echo "$NAME" | cut -d- -f1)
CMD=$(cat "$DIR/demo_cmd.txt" | sed "s#$AG/mutants/$PROP#$WT/mutants/x#g; s#$AG#$WT#g")
( cd "$WT/mutants/x" && sh -c "$CMD" ) > "$WT/clean.out" 2>&1; RC_CLEAN=$?
git -C "$WT" apply "$DIR/patch.diff" || { echo "$NAME apply-failed"; exit 2; }
( cd "$WT/mutants/x" && timeout 300 sh -c "$CMD" ) > "$WT/patched.out" 2>&1; RC_PATCHED=$?
PINNED=$(/verif/tools/run_pinned_tests.sh "$WT" 2>&1 | grep -E "PASSED|FAILED" | tail -1)
echo "$NAME clean_rc=$RC_CLEAN patched_rc=$RC_PATCHED pinned='$PINNED'"
git -C /repo worktree remove --force "$WT"
