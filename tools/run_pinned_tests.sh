#!/bin/sh
# run_pinned_tests.sh <worktree>: build and run the pinned test suite (no feature macros) against <worktree>
WT="$1"
B="$WT/_build_pinned"
# googletest is a submodule: a worktree has an empty directory - borrow /repo's checkout
[ -f "$WT/external/googletest/CMakeLists.txt" ] || { rmdir "$WT/external/googletest" 2>/dev/null; ln -s /repo/external/googletest "$WT/external/googletest"; }
mkdir -p "$B"
cmake -G Ninja -S "$WT" -B "$B" -DAVEL_BUILD_TESTS=ON > "$B/cfg.log" 2>&1 || { echo "CONFIGURE FAILED"; tail "$B/cfg.log"; exit 2; }
if ! cmake --build "$B" > "$B/build.log" 2>&1; then
  echo "BUILD FAILED"; tail -30 "$B/build.log"; exit 2
fi
"$B/tests/AVEL_TESTS" 2>&1 | tail -5
