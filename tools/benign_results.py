#!/usr/bin/env python3
"""benign_results.py <result files...>: collect the output of tools/run_benign.sh runs into benign/RESULTS.md and
record them in benign/<name>/meta.json ("checked_by")."""
import json
import os
import re
import sys

rows = {}
for path in sys.argv[1:]:
    for ln in open(path):
        m = re.match(r'(\S+) property=(\S+) rc=(\d+) violations=(\d+) known=(\d+)', ln)
        if m:
            rows[(m.group(1), m.group(2))] = (int(m.group(3)), int(m.group(4)), int(m.group(5)))
by = {}
for (n, p), v in sorted(rows.items()):
    by.setdefault(n, []).append((p, v))
with open('/verif/benign/RESULTS.md', 'w') as f:
    f.write('# Behaviour-preserving changes and what the registered quick checks report for them\n\n'
            'Each change was written by an independent sub-agent (own worktree, nothing from /verif) together with an\n'
            'equivalence program whose checksum over a large input set is identical before and after; the quick check of\n'
            'every property the change touches was then run against a scratch worktree with the patch applied\n'
            '(`tools/run_benign.sh`).  A check must exit 0 (no alarm on code where the property holds).\n\n')
    bad = sum(1 for v in rows.values() if v[0] != 0)
    f.write('%d changes, %d check runs, %d alarms.\n\n| change | what | checks run (exit code) |\n|---|---|---|\n' % (len(by), len(rows), bad))
    for n, lst in sorted(by.items()):
        mp = '/verif/benign/%s/meta.json' % n
        meta = json.load(open(mp)) if os.path.exists(mp) else {}
        meta['checked_by'] = {p: {'exit_code': v[0], 'violations': v[1]} for p, v in lst}
        if os.path.exists(mp):
            json.dump(meta, open(mp, 'w'), indent=1)
        f.write('| %s | %s | %s |\n' % (n, str(meta.get('what', ''))[:160].replace('|', '/').replace('\n', ' '),
                                      ', '.join('%s (%d)' % (p, v[0]) for p, v in lst)))
print(open('/verif/benign/RESULTS.md').read()[-1500:])
