---- MODULE MC_Alloc_TTrace_1790499278 ----
EXTENDS Sequences, TLCExt, MC_Alloc, Toolbox, Naturals, TLC

_expression ==
    LET MC_Alloc_TEExpression == INSTANCE MC_Alloc_TEExpression
    IN MC_Alloc_TEExpression!expression
----

_trace ==
    LET MC_Alloc_TETrace == INSTANCE MC_Alloc_TETrace
    IN MC_Alloc_TETrace!trace
----

_inv ==
    ~(
        TLCGet("level") = Len(_TETrace)
        /\
        bad = (FALSE)
        /\
        clobbered = ({})
        /\
        sys = ({[base |-> 32, size |-> 40], [base |-> 80, size |-> 48]})
        /\
        word = ((32 :> 0 @@ 96 :> 16))
        /\
        live = ({[base |-> 32, es |-> 0, p |-> 32, wa |-> 32], [base |-> 80, es |-> 8, p |-> 96, wa |-> 96]})
    )
----

_init ==
    /\ clobbered = _TETrace[1].clobbered
    /\ live = _TETrace[1].live
    /\ bad = _TETrace[1].bad
    /\ word = _TETrace[1].word
    /\ sys = _TETrace[1].sys
----

_next ==
    /\ \E i,j \in DOMAIN _TETrace:
        /\ \/ /\ j = i + 1
              /\ i = TLCGet("level")
        /\ clobbered  = _TETrace[i].clobbered
        /\ clobbered' = _TETrace[j].clobbered
        /\ live  = _TETrace[i].live
        /\ live' = _TETrace[j].live
        /\ bad  = _TETrace[i].bad
        /\ bad' = _TETrace[j].bad
        /\ word  = _TETrace[i].word
        /\ word' = _TETrace[j].word
        /\ sys  = _TETrace[i].sys
        /\ sys' = _TETrace[j].sys

\* Uncomment the ASSUME below to write the states of the error trace
\* to the given file in Json format. Note that you can pass any tuple
\* to `JsonSerialize`. For example, a sub-sequence of _TETrace.
    \* ASSUME
    \*     LET J == INSTANCE Json
    \*         IN J!JsonSerialize("MC_Alloc_TTrace_1790499278.json", _TETrace)

=============================================================================

 Note that you can extract this module `MC_Alloc_TEExpression`
  to a dedicated file to reuse `expression` (the module in the 
  dedicated `MC_Alloc_TEExpression.tla` file takes precedence 
  over the module `MC_Alloc_TEExpression` below).

---- MODULE MC_Alloc_TEExpression ----
EXTENDS Sequences, TLCExt, MC_Alloc, Toolbox, Naturals, TLC

expression == 
    [
        \* To hide variables of the `MC_Alloc` spec from the error trace,
        \* remove the variables below.  The trace will be written in the order
        \* of the fields of this record.
        clobbered |-> clobbered
        ,live |-> live
        ,bad |-> bad
        ,word |-> word
        ,sys |-> sys
        
        \* Put additional constant-, state-, and action-level expressions here:
        \* ,_stateNumber |-> _TEPosition
        \* ,_clobberedUnchanged |-> clobbered = clobbered'
        
        \* Format the `clobbered` variable as Json value.
        \* ,_clobberedJson |->
        \*     LET J == INSTANCE Json
        \*     IN J!ToJson(clobbered)
        
        \* Lastly, you may build expressions over arbitrary sets of states by
        \* leveraging the _TETrace operator.  For example, this is how to
        \* count the number of times a spec variable changed up to the current
        \* state in the trace.
        \* ,_clobberedModCount |->
        \*     LET F[s \in DOMAIN _TETrace] ==
        \*         IF s = 1 THEN 0
        \*         ELSE IF _TETrace[s].clobbered # _TETrace[s-1].clobbered
        \*             THEN 1 + F[s-1] ELSE F[s-1]
        \*     IN F[_TEPosition - 1]
    ]

=============================================================================



Parsing and semantic processing can take forever if the trace below is long.
 In this case, it is advised to uncomment the module below to deserialize the
 trace from a generated binary file.

\*
\*---- MODULE MC_Alloc_TETrace ----
\*EXTENDS IOUtils, MC_Alloc, TLC
\*
\*trace == IODeserialize("MC_Alloc_TTrace_1790499278.bin", TRUE)
\*
\*=============================================================================
\*

---- MODULE MC_Alloc_TETrace ----
EXTENDS MC_Alloc, TLC

trace == 
    <<
    ([bad |-> FALSE,clobbered |-> {},sys |-> {},word |-> <<>>,live |-> {}]),
    ([bad |-> FALSE,clobbered |-> {},sys |-> {[base |-> 32, size |-> 40]},word |-> (32 :> 0),live |-> {[base |-> 32, es |-> 0, p |-> 32, wa |-> 32]}]),
    ([bad |-> FALSE,clobbered |-> {},sys |-> {[base |-> 32, size |-> 40], [base |-> 80, size |-> 48]},word |-> (32 :> 0 @@ 96 :> 16),live |-> {[base |-> 32, es |-> 0, p |-> 32, wa |-> 32], [base |-> 80, es |-> 8, p |-> 96, wa |-> 96]}])
    >>
----


=============================================================================

---- CONFIG MC_Alloc_TTrace_1790499278 ----
CONSTANTS
    ARENA = 224
    G = 16
    A = 32
    SIZES = { 0 , 1 , 3 , 8 , 24 }
    MAXLIVE = 2
    OVERHEAD = 8
    Variant = "overalloc"
    WordInside = TRUE

INVARIANT
    _inv

CHECK_DEADLOCK
    \* CHECK_DEADLOCK off because of PROPERTY or INVARIANT above.
    FALSE

INIT
    _init

NEXT
    _next

CONSTANT
    _TETrace <- _trace

ALIAS
    _expression
=============================================================================
\* Generated on Sun Sep 27 08:54:40 UTC 2026