---------------------------- MODULE TraceFacts ----------------------------
(***************************************************************************)
(* Trace validation of lane facts recorded from the real AVEL code.        *)
(*                                                                         *)
(* A driver compiled against /repo/include in one build configuration      *)
(* executes AVEL calls and records, at each call's return, one fact per    *)
(* lane: operation, operands, result, signal.  Because the specification   *)
(* is independent of build configuration, vector width, lane position and  *)
(* call form, byte-identical facts from different configurations / types / *)
(* lanes are merged before TLC sees them (their verdicts are identical);   *)
(* provenance is kept outside the trace.                                   *)
(*                                                                         *)
(* One step consumes one fact and evaluates the lane semantics of          *)
(* IntLane.tla / FP.tla / FEnv on it.  A rejected fact is printed as       *)
(* <<"REJECT", line>> and the run continues, so the rest of the trace is   *)
(* still examined.  The final step prints <<"DONE", #facts, #rejected>>;   *)
(* the orchestrator treats a missing or short DONE as a harness error.     *)
(***************************************************************************)
EXTENDS IntLane, FP, FEnv, Mask, Mem, Config, TLC, Json, IOUtils

Tr == ndJsonDeserialize(IOEnv.TRACE)

\* memory events are judged for their values (C08) or their footprint (C09)
MemMode == IF "MEMMODE" \in DOMAIN IOEnv THEN IOEnv.MEMMODE ELSE "values"

VARIABLES l,      \* next line of the trace
          nrej    \* facts rejected so far
vars == <<l, nrej>>

FactOK(e) ==
  CASE e.o = "env" -> EnvFactOK(e)
    [] e.k = "f"   -> FPFactOK(e)
    [] e.k = "m"   -> MaskFactOK(e)
    [] e.k = "v"   -> MemFactOK(e, MemMode)
    [] e.k = "p"   -> PrefetchFactOK(e)
    [] e.k = "c"   -> (CASE e.o = "probe" -> ConfigFactOK(e) [] e.o = "include" -> IncludeFactOK(e)
                         [] e.o = "api" -> ApiFactOK(e) [] OTHER -> FALSE)
    [] OTHER       -> IntFactOK(e)

Init == l = 1 /\ nrej = 0

Consume == /\ l <= Len(Tr)
           /\ IF FactOK(Tr[l])
                THEN nrej' = nrej
                ELSE PrintT(<<"REJECT", l>>) /\ nrej' = nrej + 1
           /\ l' = l + 1

Done == /\ l = Len(Tr) + 1
        /\ PrintT(<<"DONE", Len(Tr), nrej>>)
        /\ l' = l + 1 /\ UNCHANGED nrej

Next == Consume \/ Done
Spec == Init /\ [][Next]_vars
=============================================================================
