----------------------------- MODULE TraceAvel -----------------------------
(***************************************************************************)
(* Trace validation of the composed abstract machine (Avel.tla).           *)
(*                                                                         *)
(* harness/drv_prog.cpp keeps real avel::Vector / avel::Vector_mask        *)
(* objects, a byte arena and the floating-point environment alive and runs *)
(* a long seeded program over them in which results feed later operations: *)
(* arithmetic into comparisons, comparisons into mask algebra, masks into  *)
(* blend / keep / negate / conversions, vectors into partial stores, the   *)
(* arena back into partial loads, with fesetround steps in between.  One   *)
(* ndjson event is written at the return of every call, carrying the       *)
(* action's name and arguments (register names, counts, offsets) and the   *)
(* observed value of the destination - never the source operands.          *)
(*                                                                         *)
(* Each event must be a step of the corresponding action of Avel.tla taken *)
(* from the specification's OWN state: the source operands are V[a], K[k], *)
(* mem as the specification computed them.  A wrong lane, a stale mask     *)
(* bit, a byte written outside a store's range or a changed rounding mode  *)
(* therefore diverges where it happens or at the first consumer.  A        *)
(* rejected event is printed as <<"REJECT", line>>, the state is forced to *)
(* the observed one (action Force) and validation continues; the trace is  *)
(* accepted when DONE reports zero rejections.                             *)
(*                                                                         *)
(* N, W, Kind, VRegs, KRegs, MemSize are constants of one trace (one       *)
(* vector type); the orchestrator writes the .cfg.                         *)
(***************************************************************************)
EXTENDS Avel, FP, Json, IOUtils

Tr == ndJsonDeserialize(IOEnv.TRACE)

VARIABLES l, nrej
tvars == <<vars, l, nrej>>

TInit == Init /\ l = 1 /\ nrej = 0

Reject == PrintT(<<"REJECT", l>>) /\ nrej' = nrej + 1
Accept == UNCHANGED nrej

Bools(m) == [i \in 1..N |-> m[i] = 1]
\* every observer the driver logged for a mask destination agrees with one array of booleans
MaskSeen(e, m) == /\ Bools(e.m) = m
                  /\ e.count = MCount(m)
                  /\ (e.any = 1) = MAny(m) /\ (e.all = 1) = MAll(m) /\ (e.none = 1) = MNone(m)
\* the call returned normally and left the rounding mode as the specification has it
Quiet(e) == e.sig = "none" /\ e.rm = env

\* the state is forced to what the real objects show (after a rejection, or where the documentation leaves
\* the result open): destination vector / mask / memory from the event, everything else unchanged
Force(Vn, Kn, memn, envn) == /\ V' = Vn /\ K' = Kn /\ mem' = memn /\ env' = envn
                             /\ last' = [a |-> "force", f |-> "force", d |-> "none", x |-> <<>>, pre |-> Pre] /\ depth' = depth + 1
ForceV(e) == Force([V EXCEPT ![e.d] = FromImage(e.r)], K, mem, IF e.rm \in Modes THEN e.rm ELSE env)
ForceK(e) == Force(V, [K EXCEPT ![e.k] = Bools(e.m)], mem, IF e.rm \in Modes THEN e.rm ELSE env)

AllLanes == [i \in 1..N |-> TRUE]
\* a vector-valued step: expected value exp, specification action act; domL[i] = the result of lane i is
\* specified (a shift amount above the width, bit_floor of a negative value ... leave that lane open - but only
\* that lane, and the call must still return normally and leave the environment alone)
VStep(e, domL, exp, act) ==
  IF Quiet(e) /\ (\A i \in 1..N : domL[i] => FromImage(e.r)[i] = exp[i])
  THEN Accept /\ (IF \A i \in 1..N : domL[i] THEN act ELSE ForceV(e))
  ELSE Reject /\ ForceV(e)
KStep(e, exp, act) ==
  IF Quiet(e) /\ MaskSeen(e, exp) THEN Accept /\ act
  ELSE Reject /\ ForceK(e)

\* one float lane against FP.tla, in the machine's current rounding mode
FLaneOK(o, a, b, r, m) == FPFactOK([o |-> o, a |-> a, b |-> b, r |-> r, rm |-> env, m |-> m, sig |-> "none"])
\* predicates: the truth value FP.tla assigns (comparisons, quiet comparisons, mask(vector))
FLanePred(o, a, b) == FPFactOK([o |-> o, a |-> a, b |-> b, r |-> 1, rm |-> env, m |-> 0, sig |-> "none"])
FStep(e, okL) == IF Quiet(e) /\ (\A i \in 1..N : okL[i]) THEN Accept /\ SetVec(e.d, FromImage(e.r))
                 ELSE Reject /\ ForceV(e)

Step(e) ==
  CASE e.e = "setvec" -> Accept /\ SetVec(e.d, FromImage(e.r))
    [] e.e = "kset"   -> KStep(e, Bools(e.arg), KSet(e.k, Bools(e.arg)))
    [] e.e = "bin"    -> VStep(e, AllLanes, VBinRes(e.o, e.a, e.b), VBin(e.o, e.d, e.a, e.b))
    [] e.e = "un"     -> VStep(e, VUnDomL(e.o, e.a), VUnRes(e.o, e.a), VUn(e.o, e.d, e.a))
    [] e.e = "shift"  -> VStep(e, VShiftDomL(e.o, e.a, e.s), VShiftRes(e.o, e.a, e.s), VShift(e.o, e.d, e.a, e.s))
    [] e.e = "shiftv" -> VStep(e, VShiftVDomL(e.o, e.a, e.b), VShiftVRes(e.o, e.a, e.b), VShiftV(e.o, e.d, e.a, e.b))
    [] e.e = "div"    -> LET q == FromImage(e.r)  r == FromImage(e.r2) IN
                         IF Quiet(e) /\ e.d # e.d2 /\ VDivOK(e.a, e.b, q, r) THEN Accept /\ VDiv(e.d, e.d2, e.a, e.b, q, r)
                         ELSE Reject /\ Force([V EXCEPT ![e.d] = q, ![e.d2] = r], K, mem, IF e.rm \in Modes THEN e.rm ELSE env)
    [] e.e = "cmp"    -> KStep(e, VCmpRes(e.o, e.a, e.b), VCmp(e.o, e.k, e.a, e.b))
    [] e.e = "kbin"   -> KStep(e, KBinRes(e.o, e.a, e.b), KBin(e.o, e.k, e.a, e.b))
    [] e.e = "knot"   -> KStep(e, MNot(K[e.a]), KNot(e.k, e.a))
    [] e.e = "kins"   -> KStep(e, MIns(K[e.a], e.I + 1, e.bv = 1), KInsert(e.k, e.a, e.I, e.bv = 1))
    [] e.e = "blend"  -> VStep(e, AllLanes, VBlendRes(e.k, e.a, e.b), VBlend(e.d, e.k, e.a, e.b))
    [] e.e = "keep"   -> VStep(e, AllLanes, VKeepRes(e.k, e.a), VKeep(e.d, e.k, e.a))
    [] e.e = "clear"  -> VStep(e, AllLanes, VClearRes(e.k, e.a), VClear(e.d, e.k, e.a))
    [] e.e = "negate" -> VStep(e, AllLanes, VNegateRes(e.k, e.a), VNegate(e.d, e.k, e.a))
    [] e.e = "set_bits" -> VStep(e, AllLanes, VSetBitsRes(e.k), VSetBits(e.d, e.k))
    [] e.e = "b2v"    -> VStep(e, AllLanes, VFromMaskRes(e.k), VFromMask(e.d, e.k))
    [] e.e = "nz"     -> KStep(e, KFromVecRes(e.a), KFromVec(e.k, e.a))
    [] e.e = "insert" -> VStep(e, AllLanes, VInsertRes(e.a, e.I, e.x), VInsert(e.d, e.a, e.I, e.x))
    [] e.e = "load"   -> VStep(e, AllLanes, LoadRes(e.p, e.n), Load(e.d, e.p, e.n))
    [] e.e = "store"  -> IF Quiet(e) /\ e.mem = StoreRes(e.a, e.p, e.n) THEN Accept /\ Store(e.a, e.p, e.n)
                         ELSE Reject /\ Force(V, K, [x \in 1..MemSize |-> e.mem[x]], IF e.rm \in Modes THEN e.rm ELSE env)
    \* Float vector types (Kind = "f"): the lane semantics of FP.tla are relations accepted by postcondition (a NaN
    \* payload, the sign of some zeros and min/max of a NaN are open), so a float step is accepted when every lane
    \* satisfies the relation UNDER THE SPECIFICATION'S OWN ROUNDING MODE env and own operands, and the state then
    \* takes the observed value.  Mask, memory and environment steps are the actions above, unchanged.
    [] e.e = "fbin"  -> FStep(e, [i \in 1..N |-> FLaneOK(e.o, V[e.a][i], V[e.b][i], FromImage(e.r)[i], 0)])
    [] e.e = "fun"   -> FStep(e, [i \in 1..N |-> FLaneOK(e.o, V[e.a][i], ZeroLane, FromImage(e.r)[i], 0)])
    [] e.e = "fsel"  -> FStep(e, [i \in 1..N |-> FLaneOK(e.o, V[e.a][i], V[e.b][i], FromImage(e.r)[i], IF K[e.k][i] THEN 1 ELSE 0)])
    [] e.e = "fb2v"  -> FStep(e, [i \in 1..N |-> FLaneOK("b2v", ZeroLane, ZeroLane, FromImage(e.r)[i], IF K[e.k][i] THEN 1 ELSE 0)])
    [] e.e = "fcmp"  -> KStep(e, [i \in 1..N |-> FLanePred(e.o, V[e.a][i], V[e.b][i])], KSet(e.k, Bools(e.m)))
    [] e.e = "fpred" -> KStep(e, [i \in 1..N |-> FLanePred(e.o, V[e.a][i], ZeroLane)], KSet(e.k, Bools(e.m)))
    [] e.e = "fnz"   -> KStep(e, [i \in 1..N |-> FLanePred("nz", V[e.a][i], ZeroLane)], KSet(e.k, Bools(e.m)))
    \* gather / scatter: the driver builds the index register itself (an earlier setvec), always inside the arena
    [] e.e = "gather" -> IF GSDom(e.p, e.b, e.n) THEN VStep(e, AllLanes, GatherRes(e.p, e.b, e.n), Gather(e.d, e.p, e.b, e.n))
                         ELSE Reject /\ ForceV(e)
    [] e.e = "scatter" -> IF ScatterDom(e.p, e.b, e.n) /\ Quiet(e) /\ e.mem = ScatterRes(e.a, e.p, e.b, e.n)
                          THEN Accept /\ Scatter(e.a, e.p, e.b, e.n)
                          ELSE Reject /\ Force(V, K, [x \in 1..MemSize |-> e.mem[x]], IF e.rm \in Modes THEN e.rm ELSE env)
    [] e.e = "setenv" -> Accept /\ SetEnv(e.m)
    \* pure observers: no state change, the observation must describe the specification's state
    [] e.e = "extract" -> (IF Quiet(e) /\ e.x = V[e.a][e.I + 1] THEN Accept ELSE Reject) /\ UNCHANGED vars
    [] e.e = "vobs"   -> LET m == KFromVecRes(e.a) IN
                         (IF Quiet(e) /\ Image(V[e.a]) = e.r /\ e.count = MCount(m) /\ (e.any = 1) = MAny(m)
                             /\ (e.all = 1) = MAll(m) /\ (e.none = 1) = MNone(m)
                          THEN Accept ELSE Reject) /\ UNCHANGED vars
    [] e.e = "kobs"   -> (IF Quiet(e) /\ MaskSeen(e, K[e.k]) /\ (e.eq = 1) = (K[e.k] = K[e.b]) /\ (e.ne = 1) = (K[e.k] # K[e.b])
                          THEN Accept ELSE Reject) /\ UNCHANGED vars
    [] OTHER -> Reject /\ UNCHANGED vars            \* unknown event: never silently accepted

Consume == l <= Len(Tr) /\ Step(Tr[l]) /\ l' = l + 1
Done == /\ l = Len(Tr) + 1
        /\ PrintT(<<"DONE", Len(Tr), nrej>>)
        /\ l' = l + 1 /\ UNCHANGED <<vars, nrej>>

TNext == Consume \/ Done
TraceSpec == TInit /\ [][TNext]_tvars
\* the invariants of the abstract machine are evaluated in every state of the replayed behaviour as well
=============================================================================
