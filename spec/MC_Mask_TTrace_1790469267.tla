---- MODULE MC_Mask_TTrace_1790469267 ----
EXTENDS Sequences, TLCExt, MC_Mask, Toolbox, Naturals, TLC

_expression ==
    LET MC_Mask_TEExpression == INSTANCE MC_Mask_TEExpression
    IN MC_Mask_TEExpression!expression
----

_trace ==
    LET MC_Mask_TETrace == INSTANCE MC_Mask_TETrace
    IN MC_Mask_TETrace!trace
----

_inv ==
    ~(
        TLCGet("level") = Len(_TETrace)
        /\
        op = ("m_not")
        /\
        m1 = (<<TRUE, TRUE, TRUE, TRUE>>)
        /\
        m2 = (<<FALSE, FALSE, FALSE, FALSE>>)
        /\
        k1 = (255)
        /\
        k2 = (0)
    )
----

_init ==
    /\ op = _TETrace[1].op
    /\ k1 = _TETrace[1].k1
    /\ k2 = _TETrace[1].k2
    /\ m1 = _TETrace[1].m1
    /\ m2 = _TETrace[1].m2
----

_next ==
    /\ \E i,j \in DOMAIN _TETrace:
        /\ \/ /\ j = i + 1
              /\ i = TLCGet("level")
        /\ op  = _TETrace[i].op
        /\ op' = _TETrace[j].op
        /\ k1  = _TETrace[i].k1
        /\ k1' = _TETrace[j].k1
        /\ k2  = _TETrace[i].k2
        /\ k2' = _TETrace[j].k2
        /\ m1  = _TETrace[i].m1
        /\ m1' = _TETrace[j].m1
        /\ m2  = _TETrace[i].m2
        /\ m2' = _TETrace[j].m2

\* Uncomment the ASSUME below to write the states of the error trace
\* to the given file in Json format. Note that you can pass any tuple
\* to `JsonSerialize`. For example, a sub-sequence of _TETrace.
    \* ASSUME
    \*     LET J == INSTANCE Json
    \*         IN J!JsonSerialize("MC_Mask_TTrace_1790469267.json", _TETrace)

=============================================================================

 Note that you can extract this module `MC_Mask_TEExpression`
  to a dedicated file to reuse `expression` (the module in the 
  dedicated `MC_Mask_TEExpression.tla` file takes precedence 
  over the module `MC_Mask_TEExpression` below).

---- MODULE MC_Mask_TEExpression ----
EXTENDS Sequences, TLCExt, MC_Mask, Toolbox, Naturals, TLC

expression == 
    [
        \* To hide variables of the `MC_Mask` spec from the error trace,
        \* remove the variables below.  The trace will be written in the order
        \* of the fields of this record.
        op |-> op
        ,k1 |-> k1
        ,k2 |-> k2
        ,m1 |-> m1
        ,m2 |-> m2
        
        \* Put additional constant-, state-, and action-level expressions here:
        \* ,_stateNumber |-> _TEPosition
        \* ,_opUnchanged |-> op = op'
        
        \* Format the `op` variable as Json value.
        \* ,_opJson |->
        \*     LET J == INSTANCE Json
        \*     IN J!ToJson(op)
        
        \* Lastly, you may build expressions over arbitrary sets of states by
        \* leveraging the _TETrace operator.  For example, this is how to
        \* count the number of times a spec variable changed up to the current
        \* state in the trace.
        \* ,_opModCount |->
        \*     LET F[s \in DOMAIN _TETrace] ==
        \*         IF s = 1 THEN 0
        \*         ELSE IF _TETrace[s].op # _TETrace[s-1].op
        \*             THEN 1 + F[s-1] ELSE F[s-1]
        \*     IN F[_TEPosition - 1]
    ]

=============================================================================



Parsing and semantic processing can take forever if the trace below is long.
 In this case, it is advised to uncomment the module below to deserialize the
 trace from a generated binary file.

\*
\*---- MODULE MC_Mask_TETrace ----
\*EXTENDS IOUtils, MC_Mask, TLC
\*
\*trace == IODeserialize("MC_Mask_TTrace_1790469267.bin", TRUE)
\*
\*=============================================================================
\*

---- MODULE MC_Mask_TETrace ----
EXTENDS MC_Mask, TLC

trace == 
    <<
    ([op |-> "init",m1 |-> <<FALSE, FALSE, FALSE, FALSE>>,m2 |-> <<FALSE, FALSE, FALSE, FALSE>>,k1 |-> 0,k2 |-> 0]),
    ([op |-> "m_not",m1 |-> <<TRUE, TRUE, TRUE, TRUE>>,m2 |-> <<FALSE, FALSE, FALSE, FALSE>>,k1 |-> 255,k2 |-> 0])
    >>
----


=============================================================================

---- CONFIG MC_Mask_TTrace_1790469267 ----
CONSTANTS
    N = 4
    KBits = 8
    MaskAfterNot = FALSE

INVARIANT
    _inv

CHECK_DEADLOCK
    \* CHECK_DEADLOCK off because of PROPERTY or INVARIANT above.
    FALSE

INIT
    _init

NEXT
    _next

CONSTANT
    _TETrace <- _trace

ALIAS
    _expression
=============================================================================
\* Generated on Sun Sep 27 00:34:28 UTC 2026