----------------------------- MODULE TraceAlloc -----------------------------
(***************************************************************************)
(* Trace validation of allocator histories (C18).  The harness interposes  *)
(* on the system allocator at link time (malloc, free, posix_memalign,     *)
(* aligned_alloc) and records those calls while an Aligned_allocator       *)
(* member function runs, followed by the member function's own event:      *)
(*                                                                         *)
(*   sys_alloc p size      sys_free p          (inside allocate/deallocate)*)
(*   allocate id p bytes A                                                 *)
(*   deallocate id                                                         *)
(*   check bad      #bytes of live blocks whose fill pattern is damaged    *)
(*   end            quiescence: the harness released everything it holds   *)
(*                                                                         *)
(* Addresses are offsets from a reference address (small integers).        *)
(* State: the system blocks alive, the user blocks alive, and the system   *)
(* calls seen since the last allocator call ("pending").                   *)
(***************************************************************************)
EXTENDS Naturals, FiniteSets, Sequences, TLC, Json, IOUtils

Tr == ndJsonDeserialize(IOEnv.TRACE)

VARIABLES l, nrej, sys, live, pendA, pendF
vars == <<l, nrej, sys, live, pendA, pendF>>

Range(b, n) == IF n = 0 THEN {} ELSE b .. (b + n - 1)
Init == l = 1 /\ nrej = 0 /\ sys = {} /\ live = {} /\ pendA = {} /\ pendF = {}
Reject == PrintT(<<"REJECT", l>>) /\ nrej' = nrej + 1
Accept(ok) == IF ok THEN UNCHANGED nrej ELSE Reject

\* a new system block never overlaps a live one (sanity of the system heap)
SysAlloc(e) == LET b == [p |-> e.p, size |-> e.size] IN
  /\ Accept(\A s \in sys : Range(s.p, s.size) \cap Range(e.p, e.size) = {})
  /\ sys' = sys \cup {b} /\ pendA' = pendA \cup {b} /\ UNCHANGED <<live, pendF>>

\* free of something that is not the base of a live system block is invalid
SysFree(e) ==
  /\ Accept(e.p = 0 \/ \E s \in sys : s.p = e.p)
  /\ sys' = {s \in sys : s.p # e.p} /\ pendF' = pendF \cup {e.p} /\ UNCHANGED <<live, pendA>>

Allocate(e) ==
  LET r == Range(e.p, e.bytes)
      ok == /\ e.sig = "none"
            /\ e.p % e.A = 0                                            \* aligned to A
            /\ (e.bytes > 0 => \E s \in pendA : r \subseteq Range(s.p, s.size))  \* inside its own system block
            /\ \A b \in live : Range(b.p, b.bytes) \cap r = {}          \* disjoint from live blocks
            /\ pendF = {}                                               \* allocate frees nothing
  IN /\ Accept(ok)
     /\ live' = live \cup {[id |-> e.id, p |-> e.p, bytes |-> e.bytes,
                            bases |-> {s.p : s \in pendA}]}
     /\ pendA' = {} /\ pendF' = {} /\ UNCHANGED sys

Deallocate(e) ==
  LET bs == {b \in live : b.id = e.id}
      b == CHOOSE x \in bs : TRUE
      ok == /\ e.sig = "none" /\ bs # {}
            /\ pendA = {}
            /\ pendF = b.bases               \* exactly the system block(s) the allocation came from
  IN /\ Accept(ok)
     /\ live' = live \ bs /\ pendA' = {} /\ pendF' = {} /\ UNCHANGED sys

\* One request above 4 GiB.  Sizes are split into 2^20-byte units (TLC integers are 32-bit); off = user pointer
\* minus the base of the one system block obtained for it.  The same conditions as Allocate / Deallocate:
\* aligned, inside its own system block, nothing freed by allocate; exactly that block freed by deallocate.
M20 == 1048576
AllocateBig(e) ==
  LET lo == e.off + e.bytes_lo
      hi == e.bytes_hi + (lo \div M20)
      inside == hi < e.size_hi \/ (hi = e.size_hi /\ lo % M20 <= e.size_lo)
  IN Accept(e.sig = "none" /\ e.nsys = 1 /\ e.nfree = 0 /\ e.off >= 0 /\ e.pmod = 0 /\ inside)
     /\ UNCHANGED <<sys, live, pendA, pendF>>
DeallocateBig(e) == Accept(e.sig = "none" /\ e.frees = 1 /\ e.freed_base = 1 /\ e.fill_ok = 1)
                    /\ UNCHANGED <<sys, live, pendA, pendF>>

Check(e) == Accept(e.bad = 0) /\ UNCHANGED <<sys, live, pendA, pendF>>
EndEv(e) == Accept(live = {} => sys = {}) /\ UNCHANGED <<sys, live, pendA, pendF>>
ResetEv(e) == sys' = {} /\ live' = {} /\ pendA' = {} /\ pendF' = {} /\ UNCHANGED nrej

Consume == /\ l <= Len(Tr)
           /\ LET e == Tr[l] IN
                CASE e.e = "sys_alloc"  -> SysAlloc(e)
                  [] e.e = "sys_free"   -> SysFree(e)
                  [] e.e = "allocate"   -> Allocate(e)
                  [] e.e = "deallocate" -> Deallocate(e)
                  [] e.e = "check"      -> Check(e)
                  [] e.e = "end"        -> EndEv(e)
                  [] e.e = "reset"      -> ResetEv(e)
                  [] e.e = "allocate_big"   -> AllocateBig(e)
                  [] e.e = "deallocate_big" -> DeallocateBig(e)
                  [] e.e = "big_refused"    -> UNCHANGED <<nrej, sys, live, pendA, pendF>>
                  [] OTHER -> Reject /\ UNCHANGED <<sys, live, pendA, pendF>>
           /\ l' = l + 1
Done == /\ l = Len(Tr) + 1 /\ PrintT(<<"DONE", Len(Tr), nrej>>)
        /\ l' = l + 1 /\ UNCHANGED <<nrej, sys, live, pendA, pendF>>
Next == Consume \/ Done
Spec == Init /\ [][Next]_vars
=============================================================================
