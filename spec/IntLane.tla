----------------------------- MODULE IntLane -----------------------------
(***************************************************************************)
(* Meaning of every integer lane operation of AVEL, independent of the     *)
(* build configuration, vector width and call form.  A lane is a byte      *)
(* sequence (BV.tla); k is "u" (unsigned element type) or "i" (signed).    *)
(*                                                                         *)
(* Deterministic operations are functions (the spec computes the result);  *)
(* division and a few others are relations accepted by postcondition.      *)
(* Inputs that the documentation leaves unspecified make the relation      *)
(* TRUE for every result (explicit nondeterminism, never a demand).        *)
(***************************************************************************)
EXTENDS BV

OneW(L)  == Trunc(<<1>>, L)
MinW(L)  == [i \in 1..L |-> IF i = L THEN 128 ELSE 0]     \* signed minimum
NumW(n, L) == FromNatL(n, L)                               \* small n as a lane
B2I(b) == IF b THEN 1 ELSE 0

(* ---------------------------- C01 ------------------------------------- *)
Add(a, b) == AddW(a, b)
Sub(a, b) == SubW(a, b)
Mul(a, b) == MulW(a, b)
Neg(a)    == NegW(a)
IncL(a)   == IncW(a)
DecL(a)   == DecW(a)

(* ---------------------------- C02 ------------------------------------- *)
Eq(a, b)    == a = b
Lt(k, a, b) == Cmp(k, a, b) < 0
Le(k, a, b) == Cmp(k, a, b) <= 0

CmpOp(op, k, a, b) ==
  CASE op = "eq" -> a = b
    [] op = "ne" -> a # b
    [] op = "lt" -> Lt(k, a, b)
    [] op = "le" -> Le(k, a, b)
    [] op = "gt" -> Lt(k, b, a)
    [] op = "ge" -> Le(k, b, a)

(* ---------------------------- C04 ------------------------------------- *)
\* shift amount s is a byte sequence; amounts above W are unspecified
ShiftDomain(a, s) == AmtLE(s, 8 * Len(a))
Shl(a, s)    == ShlW(a, AmtVal(s))
Shr(k, a, s) == IF k = "i" THEN SarW(a, AmtVal(s)) ELSE ShrW(a, AmtVal(s))
\* rotations: any amount, reduced modulo W (W is a power of two, so the
\* residue of a two's-complement amount is its low bits)
Rotl(a, s) == RotlW(a, AmtMod(s, 8 * Len(a)))
Rotr(a, s) == RotrW(a, AmtMod(s, 8 * Len(a)))

(* ---------------------------- C05 ------------------------------------- *)
DivRelU(x, y, q, r) == /\ BNCmp(r, y) < 0
                       /\ BNCmp(BNAdd(BNMul(q, y), r), x) = 0
DivRel(k, x, y, q, r) ==
  IF k = "u" THEN DivRelU(x, y, q, r)
  ELSE /\ DivRelU(AbsW("i", x), AbsW("i", y), AbsW("i", q), AbsW("i", r))
       /\ (BNIsZero(q) \/ ((SignBit(q) = 1) <=> (SignBit(x) # SignBit(y))))
       /\ (BNIsZero(r) \/ SignBit(r) = SignBit(x))
DivDomain(k, x, y) == /\ ~BNIsZero(y)
                      /\ ~(k = "i" /\ x = MinW(Len(x)) /\ y = Ones(Len(y)))

(* ---------------------------- C06 ------------------------------------- *)
BitWidth(a) == 8 * Len(a) - Clz(a)
BitFloor(a) == IF BNIsZero(a) THEN a ELSE Pow2W(BitWidth(a) - 1, Len(a))
BitCeil(a)  == IF BNCmp(a, <<1>>) <= 0 THEN OneW(Len(a))
               ELSE Pow2W(BitWidth(DecW(a)), Len(a))        \* 0 above the top power
HasSingleBit(a) == PopCount(a) = 1
CountlSign(a) == ClFrom(a, 8 * Len(a) - 2, SignBit(a))
\* negative arguments of the signed bit_floor / bit_ceil are undefined
PowDomain(k, a) == ~IsNeg(k, a)

(* ---------------------------- C07 ------------------------------------- *)
MinK(k, a, b) == IF Lt(k, a, b) THEN a ELSE b
MaxK(k, a, b) == IF Lt(k, a, b) THEN b ELSE a
ClampDomain(k, lo, hi) == Lt(k, lo, hi)
Clamp(k, x, lo, hi) == MinK(k, MaxK(k, x, lo), hi)
Abs(k, a)    == AbsW(k, a)
\* neg_abs of an unsigned vector returns the *signed* vector type and is defined
\* by AVEL (code, scalar overload and upstream tests alike) as neg_abs of the
\* value converted to the signed counterpart, so both kinds act on the signed
\* reading of the bit pattern.
NegAbs(k, a) == IF SignBit(a) = 1 THEN a ELSE NegW(a)
Negate(m, a) == IF m THEN NegW(a) ELSE a
Blend(m, a, b) == IF m THEN a ELSE b
Keep(m, a)  == IF m THEN a ELSE Zeros(Len(a))
Clear(m, a) == IF m THEN Zeros(Len(a)) ELSE a
SetBits(m, L) == IF m THEN Ones(L) ELSE Zeros(L)
\* widen by one byte according to the element kind
Widen(k, a) == IF k = "i" THEN SExt(a, Len(a) + 1) ELSE ZExt(a, Len(a) + 1)
\* trunc(v/2) for a two's complement value v
HalfTZ(v) == IF SignBit(v) = 1 /\ Bit(v, 0) = 1 THEN SarW(IncW(v), 1) ELSE SarW(v, 1)
Average(k, a, b)  == Trunc(HalfTZ(AddW(Widen(k, a), Widen(k, b))), Len(a))
Midpoint(k, a, b) == LET d == SubW(Widen(k, b), Widen(k, a))   \* exact, W+8 bits
                     IN AddW(a, Trunc(HalfTZ(d), Len(a)))

(* ---------------------------- C17 ------------------------------------- *)
\* static_cast between integer element types on bytes
Conv(kfrom, a, Lto) == IF Lto <= Len(a) THEN Trunc(a, Lto)
                       ELSE IF kfrom = "i" THEN SExt(a, Lto) ELSE ZExt(a, Lto)

(* ---------------------------- C16 ------------------------------------- *)
\* mixed-signedness comparisons cmp_equal / cmp_less / ... compare the
\* mathematical integer values of a (kind ka) and b (kind kb), equal widths
MathCmp(ka, a, kb, b) ==
  IF IsNeg(ka, a) THEN (IF IsNeg(kb, b) THEN CmpS(a, b) ELSE -1)
  ELSE IF IsNeg(kb, b) THEN 1 ELSE CmpU(a, b)
MixOps == {"cmp_equal", "cmp_not_equal", "cmp_less", "cmp_less_equal", "cmp_greater", "cmp_greater_equal"}
MixCmpOp(o, ka, a, kb, b) ==
  LET c == MathCmp(ka, a, kb, b) IN
  CASE o = "cmp_equal" -> c = 0 [] o = "cmp_not_equal" -> c # 0
    [] o = "cmp_less" -> c < 0 [] o = "cmp_less_equal" -> c <= 0
    [] o = "cmp_greater" -> c > 0 [] o = "cmp_greater_equal" -> c >= 0

(***************************************************************************)
(* Operation tables: the same definitions serve the abstract machine       *)
(* (Avel.tla), the bounded model checks (MC_*.tla) and trace validation.   *)
(***************************************************************************)
UnOps  == {"neg", "pos", "id", "inc", "dec", "not", "popcount", "countl_zero",
           "countl_one", "countr_zero", "countr_one", "bit_width", "bit_floor",
           "bit_ceil", "byteswap", "abs", "neg_abs"}
SignedOnlyUnOps == {"countl_sign"}
BinOps == {"add", "sub", "mul", "and", "or", "xor", "andnot", "min", "max",
           "average", "midpoint"}
CmpOps == {"eq", "ne", "lt", "le", "gt", "ge"}
ShiftOps == {"shl", "shr", "rotl", "rotr"}

IntUn(o, k, a) ==
  CASE o = "neg"  -> Neg(a)
    [] o = "pos"  -> a
    [] o = "id"   -> a
    [] o = "inc"  -> IncL(a)
    [] o = "dec"  -> DecL(a)
    [] o = "not"  -> NotW(a)
    [] o = "popcount"    -> NumW(PopCount(a), Len(a))
    [] o = "countl_zero" -> NumW(Clz(a), Len(a))
    [] o = "countl_one"  -> NumW(Clo(a), Len(a))
    [] o = "countr_zero" -> NumW(Ctz(a), Len(a))
    [] o = "countr_one"  -> NumW(Cto(a), Len(a))
    [] o = "countl_sign" -> NumW(CountlSign(a), Len(a))
    [] o = "bit_width"   -> NumW(BitWidth(a), Len(a))
    [] o = "bit_floor"   -> BitFloor(a)
    [] o = "bit_ceil"    -> BitCeil(a)
    [] o = "byteswap"    -> ByteSwap(a)
    [] o = "abs"     -> Abs(k, a)
    [] o = "neg_abs" -> NegAbs(k, a)
\* is the result of the unary operation specified for this input?
IntUnDomain(o, k, a) == o \in {"bit_floor", "bit_ceil"} => PowDomain(k, a)

IntBin(o, k, a, b) ==
  CASE o = "add"  -> Add(a, b)
    [] o = "sub"  -> Sub(a, b)
    [] o = "mul"  -> Mul(a, b)
    [] o = "and"  -> AndW(a, b)
    [] o = "or"   -> OrW(a, b)
    [] o = "xor"  -> XorW(a, b)
    [] o = "andnot" -> AndNotW(a, b)
    [] o = "min"  -> MinK(k, a, b)
    [] o = "max"  -> MaxK(k, a, b)
    [] o = "average"  -> Average(k, a, b)
    [] o = "midpoint" -> Midpoint(k, a, b)

IntShift(o, k, a, s) ==
  CASE o = "shl"  -> Shl(a, s)
    [] o = "shr"  -> Shr(k, a, s)
    [] o = "rotl" -> Rotl(a, s)
    [] o = "rotr" -> Rotr(a, s)
IntShiftDomain(o, a, s) == o \in {"shl", "shr"} => ShiftDomain(a, s)

(***************************************************************************)
(* Fact judgement.  A fact e is a record read from a trace:                *)
(*   o  operation, k element kind, a b c operands (byte sequences),        *)
(*   s  shift/rotate amount (byte sequence), m mask lane (0/1),            *)
(*   r  result (byte sequence, or 0/1 for predicates), q quotient,         *)
(*   sig  signal raised during the call ("none" expected).                 *)
(***************************************************************************)
M(e) == e.m = 1

IntFactOK(e) ==
  LET o == e.o  k == e.k IN
  /\ e.sig = "none"
  /\ CASE o \in UnOps \cup SignedOnlyUnOps ->
                        IntUnDomain(o, k, e.a) => e.r = IntUn(o, k, e.a)
       [] o \in BinOps -> e.r = IntBin(o, k, e.a, e.b)
       [] o \in CmpOps -> e.r = B2I(CmpOp(o, k, e.a, e.b))
       [] o \in MixOps -> e.r = B2I(MixCmpOp(o, k, e.a, IF e.kbv = <<105>> THEN "i" ELSE "u", e.b))   \* kbv: ASCII of the second kind
       [] o \in ShiftOps -> IntShiftDomain(o, e.a, e.s) => e.r = IntShift(o, k, e.a, e.s)
       [] o = "div"  -> DivDomain(k, e.a, e.b) => DivRel(k, e.a, e.b, e.q, e.r)
       [] o = "has_single_bit" -> e.r = B2I(HasSingleBit(e.a))
       [] o = "clamp" -> ClampDomain(k, e.b, e.c) => e.r = Clamp(k, e.a, e.b, e.c)
       [] o = "negate"  -> e.r = Negate(M(e), e.a)
       [] o = "blend"   -> e.r = Blend(M(e), e.a, e.b)
       [] o = "keep"    -> e.r = Keep(M(e), e.a)
       [] o = "clear"   -> e.r = Clear(M(e), e.a)
       [] o = "set_bits" -> e.r = SetBits(M(e), Len(e.r))
       [] o = "b2v"     -> e.r = NumW(e.m, Len(e.r))            \* Vector(mask): 1 / 0
       [] o = "nz"      -> e.r = B2I(~BNIsZero(e.a))            \* mask(vector)
       [] o = "conv"    -> e.r = Conv(k, e.a, Len(e.r))
       [] o = "bit_cast" -> e.r = e.a
       [] OTHER -> FALSE          \* unknown operation: never silently accepted
=============================================================================
