-------------------------------- MODULE FP --------------------------------
(***************************************************************************)
(* IEEE-754 binary32 / binary64 lane semantics (C02, C07, C10-C13).        *)
(*                                                                         *)
(* A lane is its little-endian byte image (4 or 8 bytes).  Nothing here    *)
(* transcribes a division or square-root algorithm: correctly rounded      *)
(* results are *accepted by postcondition*.  RoundsTo(mode, vs, C, r)      *)
(* says "r is the correct rounding, in rounding mode `mode`, of the        *)
(* non-zero real number v whose sign is vs", where v is known only through *)
(* a comparison oracle  C(d) = sign(|v| - d)  for dyadic rationals d.      *)
(*   sum / difference:  |v| is an exact dyadic (bignum arithmetic)         *)
(*   product:           exact dyadic                                       *)
(*   quotient a/b:      C(d) = cmp(|a|, d * |b|)                           *)
(*   square root:       C(d) = cmp(a, d * d)                               *)
(* RoundsTo itself is model-checked against a direct definition on a toy   *)
(* format (MC_FPtoy.tla).                                                  *)
(*                                                                         *)
(* Dyadic magnitudes are records [m |-> bignum, e |-> Int] = m * 2^e.      *)
(***************************************************************************)
EXTENDS BV

(* ------------------------- format parameters -------------------------- *)
Prec(L)  == IF L = 4 THEN 24 ELSE 53           \* significand bits incl. hidden bit
Bias(L)  == IF L = 4 THEN 127 ELSE 1023
EMaxF(L) == IF L = 4 THEN 255 ELSE 2047        \* all-ones exponent field
Emin(L)  == 1 - Bias(L) - (Prec(L) - 1)        \* exponent of the last place of subnormals

Sign(x) == x[Len(x)] \div 128
ExpField(x) == IF Len(x) = 4 THEN (x[4] % 128) * 2 + x[3] \div 128
               ELSE (x[8] % 128) * 16 + x[7] \div 16
Frac(x) == IF Len(x) = 4 THEN <<x[1], x[2], x[3] % 128>>
           ELSE <<x[1], x[2], x[3], x[4], x[5], x[6], x[7] % 16>>
Hidden(L) == IF L = 4 THEN <<0, 0, 128>> ELSE <<0, 0, 0, 0, 0, 0, 16>>

IsNaN(x)  == ExpField(x) = EMaxF(Len(x)) /\ ~BNIsZero(Frac(x))
\* a signalling NaN has the top fraction bit clear
IsSNaN(x) == IsNaN(x) /\ (IF Len(x) = 4 THEN (x[3] \div 64) % 2 = 0 ELSE (x[7] \div 8) % 2 = 0)
IsInf(x)  == ExpField(x) = EMaxF(Len(x)) /\ BNIsZero(Frac(x))
IsZero(x) == ExpField(x) = 0 /\ BNIsZero(Frac(x))
IsSubnormal(x) == ExpField(x) = 0 /\ ~BNIsZero(Frac(x))
IsFinite(x) == ExpField(x) # EMaxF(Len(x))
IsNormal(x) == ExpField(x) # 0 /\ ExpField(x) # EMaxF(Len(x))
IsMaxFinite(x) == ExpField(x) = EMaxF(Len(x)) - 1 /\ Frac(x) = Frac(Ones(Len(x)))

\* integer significand and exponent: |x| = MantN(x) * 2^ExpN(x)  (finite x)
MantN(x) == IF ExpField(x) = 0 THEN Frac(x) ELSE BNAdd(Frac(x), Hidden(Len(x)))
ExpN(x)  == IF ExpField(x) = 0 THEN Emin(Len(x)) ELSE ExpField(x) - Bias(Len(x)) - (Prec(Len(x)) - 1)
Mag(x) == [m |-> MantN(x), e |-> ExpN(x)]

FlipSign(x)  == [x EXCEPT ![Len(x)] = (x[Len(x)] + 128) % 256]
ClearSign(x) == [x EXCEPT ![Len(x)] = x[Len(x)] % 128]
SetSign(x)   == [x EXCEPT ![Len(x)] = (x[Len(x)] % 128) + 128]
WithSign(x, s) == IF s = 1 THEN SetSign(x) ELSE ClearSign(x)
PosZero(L) == Zeros(L)
PosInf(L) == IF L = 4 THEN <<0, 0, 128, 127>> ELSE <<0, 0, 0, 0, 0, 0, 240, 127>>
OneF(L)   == IF L = 4 THEN <<0, 0, 128, 63>> ELSE <<0, 0, 0, 0, 0, 0, 240, 63>>

(* ------------------------- dyadic magnitudes -------------------------- *)
DyTop(d) == d.e + BNBitLen(d.m)                \* position just above the top bit
DyIsZero(d) == BNIsZero(d.m)
\* compare two non-negative dyadics: -1, 0, 1.  Top-bit positions decide
\* unless equal, so alignment shifts stay small.
DyCmp(d1, d2) ==
  IF DyIsZero(d1) \/ DyIsZero(d2)
    THEN (IF DyIsZero(d1) /\ DyIsZero(d2) THEN 0 ELSE IF DyIsZero(d1) THEN -1 ELSE 1)
  ELSE IF DyTop(d1) > DyTop(d2) THEN 1
  ELSE IF DyTop(d1) < DyTop(d2) THEN -1
  ELSE LET e == Min2(d1.e, d2.e) IN BNCmp(BNShl(d1.m, d1.e - e), BNShl(d2.m, d2.e - e))
DyMul(d1, d2) == [m |-> BNMul(d1.m, d2.m), e |-> d1.e + d2.e]
\* sum / difference after alignment (callers keep the exponent gap small)
DyAlign(d, e) == BNShl(d.m, d.e - e)
DyAdd(d1, d2) == LET e == Min2(d1.e, d2.e) IN [m |-> BNAdd(DyAlign(d1, e), DyAlign(d2, e)), e |-> e]
DySub(d1, d2) == LET e == Min2(d1.e, d2.e) IN [m |-> BNSub(DyAlign(d1, e), DyAlign(d2, e)), e |-> e]   \* d1 >= d2
DyInt(n) == [m |-> n, e |-> 0]
\* a dyadic as an integer bignum (requires it to be an integer: see DyIsInt)
DyIsInt(d) == d.e >= 0 \/ ~BNLowBitsNonZero(d.m, -d.e)
DyToInt(d) == IF d.e >= 0 THEN BNShl(d.m, d.e) ELSE BNShr(d.m, -d.e)       \* floor

(* ------------------------------ RoundsTo ------------------------------ *)
\* r finite or infinite, not NaN.  |v| + k/4 ulp(r) as a dyadic: 4*mr + k at exponent er - 2.
QuarterSteps(r, k) ==
  LET m4 == BNMulSmall(MantN(r), 4) IN
  [m |-> IF k >= 0 THEN BNAdd(m4, FromNat(k)) ELSE BNSub(m4, FromNat(-k)), e |-> ExpN(r) - 2]

RoundsTo(mode, vs, C(_), r) ==
  LET L == Len(r)
      down == mode = "RZ" \/ (mode = "RD" /\ vs = 0) \/ (mode = "RU" /\ vs = 1)   \* magnitude truncates
      MaxF == [m |-> MantN(Ones(L)), e |-> EMaxF(L) - 1 - Bias(L) - (Prec(L) - 1)]
      \* MantN(Ones) = 2^P - 1; max finite + half ulp = (2^(P+1) - 1) * 2^(emax-1)
      MaxFHalf == [m |-> BNAdd(BNMulSmall(MaxF.m, 2), <<1>>), e |-> MaxF.e - 1]
  IN
  /\ ~IsNaN(r)
  /\ Sign(r) = vs
  /\ IF IsInf(r)
       THEN CASE mode = "RN" -> C(MaxFHalf) >= 0
              [] down        -> FALSE
              [] OTHER       -> C(MaxF) > 0                        \* rounds away: anything above max finite
       ELSE LET isz == BNIsZero(MantN(r))
                \* below a power of two (normal, not the smallest binade) the spacing halves
                edge == Frac(r) = Zeros(Len(Frac(r))) /\ ExpField(r) > 1
                hDn == IF edge THEN 1 ELSE 2
                even == Bit(MantN(r), 0) = 0
            IN CASE mode = "RN" ->
                      /\ (C(QuarterSteps(r, 2)) < 0 \/ (C(QuarterSteps(r, 2)) = 0 /\ even))
                      /\ (isz \/ C(QuarterSteps(r, -hDn)) > 0 \/ (C(QuarterSteps(r, -hDn)) = 0 /\ even))
                      /\ ~(IsMaxFinite(r) /\ C(MaxFHalf) >= 0)
                 [] down ->
                      /\ C(QuarterSteps(r, 0)) >= 0
                      /\ (IsMaxFinite(r) \/ C(QuarterSteps(r, 4)) < 0)
                 [] OTHER ->                                        \* magnitude rounds up
                      /\ ~isz
                      /\ C(QuarterSteps(r, 0)) <= 0
                      /\ C(QuarterSteps(r, -2 * hDn)) > 0

(* --------------------------- C10 arithmetic --------------------------- *)
\* exact signed sum of two finite values: [s, m, e]; a far smaller operand is
\* replaced by a sticky quantity of the same sign (rounding-equivalent)
SumSigned(a, b) ==
  LET da0 == Mag(a)  db0 == Mag(b)
      za == DyIsZero(da0)  zb == DyIsZero(db0)
      \* gap: how far below the other operand's last place an operand ends
      stickyB == ~za /\ ~zb /\ DyTop(db0) + 3 <= da0.e
      stickyA == ~za /\ ~zb /\ DyTop(da0) + 3 <= db0.e
      da == IF stickyA THEN [m |-> <<1>>, e |-> db0.e - 3] ELSE da0
      db == IF stickyB THEN [m |-> <<1>>, e |-> da0.e - 3] ELSE db0
      e == Min2(da.e, db.e)
      ma == DyAlign(da, e)  mb == DyAlign(db, e)
  IN IF Sign(a) = Sign(b) THEN [s |-> Sign(a), m |-> BNAdd(ma, mb), e |-> e]
     ELSE IF BNCmp(ma, mb) >= 0 THEN [s |-> Sign(a), m |-> BNSub(ma, mb), e |-> e]
     ELSE [s |-> Sign(b), m |-> BNSub(mb, ma), e |-> e]

AddOK(mode, a, b, r) ==
  IF IsNaN(a) \/ IsNaN(b) THEN IsNaN(r)
  ELSE IF IsInf(a) \/ IsInf(b) THEN
       IF IsInf(a) /\ IsInf(b) /\ Sign(a) # Sign(b) THEN IsNaN(r)
       ELSE r = (IF IsInf(a) THEN a ELSE b)
  ELSE LET v == SumSigned(a, b) IN
       IF BNIsZero(v.m)
         THEN IsZero(r) /\ Sign(r) = (IF Sign(a) = Sign(b) THEN Sign(a) ELSE IF mode = "RD" THEN 1 ELSE 0)
         ELSE LET C(d) == DyCmp([m |-> v.m, e |-> v.e], d) IN RoundsTo(mode, v.s, C, r)
SubOK(mode, a, b, r) == IF IsNaN(b) THEN IsNaN(r) ELSE AddOK(mode, a, FlipSign(b), r)

MulOK(mode, a, b, r) ==
  LET vs == (Sign(a) + Sign(b)) % 2 IN
  IF IsNaN(a) \/ IsNaN(b) THEN IsNaN(r)
  ELSE IF IsInf(a) \/ IsInf(b) THEN
       IF IsZero(a) \/ IsZero(b) THEN IsNaN(r) ELSE IsInf(r) /\ Sign(r) = vs
  ELSE IF IsZero(a) \/ IsZero(b) THEN IsZero(r) /\ Sign(r) = vs
  ELSE LET v == DyMul(Mag(a), Mag(b))  C(d) == DyCmp(v, d) IN RoundsTo(mode, vs, C, r)

DivOK(mode, a, b, r) ==
  LET vs == (Sign(a) + Sign(b)) % 2 IN
  IF IsNaN(a) \/ IsNaN(b) THEN IsNaN(r)
  ELSE IF IsInf(a) THEN (IF IsInf(b) THEN IsNaN(r) ELSE IsInf(r) /\ Sign(r) = vs)
  ELSE IF IsInf(b) THEN IsZero(r) /\ Sign(r) = vs
  ELSE IF IsZero(b) THEN (IF IsZero(a) THEN IsNaN(r) ELSE IsInf(r) /\ Sign(r) = vs)
  ELSE IF IsZero(a) THEN IsZero(r) /\ Sign(r) = vs
  ELSE LET C(d) == DyCmp(Mag(a), DyMul(d, Mag(b))) IN RoundsTo(mode, vs, C, r)

SqrtOK(mode, a, r) ==
  IF IsNaN(a) THEN IsNaN(r)
  ELSE IF IsZero(a) THEN r = a
  ELSE IF Sign(a) = 1 THEN IsNaN(r)
  ELSE IF IsInf(a) THEN r = a
  ELSE LET C(d) == DyCmp(Mag(a), DyMul(d, d)) IN RoundsTo(mode, 0, C, r)

(* --------------------------- C02 comparisons -------------------------- *)
\* ordered comparison of non-NaN values: -1, 0, 1 (+0 = -0)
FCmp(a, b) ==
  IF IsZero(a) /\ IsZero(b) THEN 0
  ELSE IF Sign(a) # Sign(b) THEN (IF Sign(a) = 1 THEN -1 ELSE 1)
  ELSE LET c == BNCmp(ClearSign(a), ClearSign(b)) IN IF Sign(a) = 1 THEN -c ELSE c
Unordered(a, b) == IsNaN(a) \/ IsNaN(b)
FCmpOp(op, a, b) ==
  IF Unordered(a, b) THEN op = "ne"
  ELSE LET c == FCmp(a, b) IN
       CASE op = "eq" -> c = 0 [] op = "ne" -> c # 0 [] op = "lt" -> c < 0
         [] op = "le" -> c <= 0 [] op = "gt" -> c > 0 [] op = "ge" -> c >= 0
\* C13 quiet comparison predicates
QuietOp(op, a, b) ==
  CASE op = "isunordered" -> Unordered(a, b)
    [] OTHER -> ~Unordered(a, b) /\
       LET c == FCmp(a, b) IN
       CASE op = "isgreater" -> c > 0 [] op = "isgreaterequal" -> c >= 0
         [] op = "isless" -> c < 0 [] op = "islessequal" -> c <= 0
         [] op = "islessgreater" -> c # 0

(* ------------------------- C13 classification ------------------------- *)
Classify(x) == IF IsNaN(x) THEN "nan" ELSE IF IsInf(x) THEN "inf" ELSE IF IsZero(x) THEN "zero"
               ELSE IF IsSubnormal(x) THEN "subnormal" ELSE "normal"

(* --------------------- C11 rounding to an integer --------------------- *)
\* r is an integral value and is the rounding of finite non-integral x per `how`:
\*   "trunc" "floor" "ceil" "round" (ties away) "even" (ties to even)
IsIntegralF(x) == IsFinite(x) /\ DyIsInt(Mag(x))
ToIntegralOK(how, x, r) ==
  LET ax == Mag(x)
      away == (how = "floor" /\ Sign(x) = 1) \/ (how = "ceil" /\ Sign(x) = 0)
      tow  == how = "trunc" \/ (how = "floor" /\ Sign(x) = 0) \/ (how = "ceil" /\ Sign(x) = 1)
  IN /\ IsIntegralF(r)
     /\ (IsZero(r) \/ Sign(r) = Sign(x))        \* a computed zero may carry either sign
     /\ LET n == DyToInt(Mag(r))                \* |r| as an integer bignum
            N  == DyInt(n)
            N1 == DyInt(BNAdd(n, <<1>>))
            halfUp == [m |-> BNAdd(BNMulSmall(n, 2), <<1>>), e |-> -1]                  \* n + 1/2
        IN CASE tow  -> DyCmp(N, ax) < 0 /\ DyCmp(N1, ax) > 0
             [] away -> DyCmp(N, ax) > 0 /\ (BNIsZero(n) \/ DyCmp(DyInt(BNSub(n, <<1>>)), ax) < 0)
             [] OTHER ->                         \* nearest
                  LET below == DyCmp(N, ax) < 0   \* |r| < |x|
                  IN IF below
                       THEN \* |x| - n <= 1/2 ; tie allowed only for "even" with n even
                            \/ DyCmp(halfUp, ax) > 0
                            \/ (DyCmp(halfUp, ax) = 0 /\ how = "even" /\ Bit(n, 0) = 0)
                       ELSE \* n - |x| <= 1/2 ; n >= 1
                            LET halfDn == [m |-> BNSub(BNMulSmall(n, 2), <<1>>), e |-> -1] IN
                            \/ DyCmp(halfDn, ax) < 0
                            \/ (DyCmp(halfDn, ax) = 0 /\ (how = "round" \/ Bit(n, 0) = 0))

RoundFnOK(fn, mode, x, r) ==
  IF IsNaN(x) THEN IsNaN(r)
  ELSE IF IsInf(x) \/ IsIntegralF(x) THEN r = x        \* unchanged, bit for bit (also -0.0)
  ELSE LET how == CASE fn = "ceil" -> "ceil" [] fn = "floor" -> "floor" [] fn = "trunc" -> "trunc"
                    [] fn = "round" -> "round"
                    [] OTHER -> CASE mode = "RN" -> "even" [] mode = "RD" -> "floor"
                                  [] mode = "RU" -> "ceil" [] mode = "RZ" -> "trunc"
       IN ToIntegralOK(how, x, r)

(* ------------------------------- C12 ---------------------------------- *)
\* small signed integers given as two's complement byte sequences (exponents)
IntNeg(s) == s[Len(s)] >= 128
IntSmallMag(s) ==   \* |value| if it is < 2^15, else 32767 ("large")
  LET neg == IntNeg(s)
      fill == IF neg THEN 255 ELSE 0
      upperOK == \A i \in 3..Len(s) : s[i] = fill
      v16 == s[1] + 256 * s[2]
  IN IF ~upperOK THEN 32767
     ELSE IF neg THEN (IF v16 > 32768 THEN 65536 - v16 ELSE 32767)
     ELSE (IF v16 < 32768 THEN v16 ELSE 32767)
\* exponent clamped to +-5000: beyond that every result is already 0 / inf
ClampedExp(s) == LET m == Min2(IntSmallMag(s), 5000) IN IF IntNeg(s) THEN -m ELSE m
\* two's complement encoding of a small integer into L bytes
IntEnc(v, L) == IF v >= 0 THEN FromNatL(v, L) ELSE NegW(FromNatL(-v, L))

\* unbiased exponent of a finite non-zero value, normalising subnormals
Ilog(x) == DyTop(Mag(x)) - 1

\* frexp: significand in [0.5, 1) carrying x's sign and bits, exponent Ilog+1
FrexpOK(x, f, ex) ==
  IF IsNaN(x) THEN IsNaN(f)                                   \* exponent unspecified
  ELSE IF IsInf(x) THEN f = x                                 \* exponent unspecified
  ELSE IF IsZero(x) THEN f = x /\ ex = IntEnc(0, Len(ex))
  ELSE /\ ex = IntEnc(Ilog(x) + 1, Len(ex))
       /\ Sign(f) = Sign(x) /\ ExpField(f) = Bias(Len(x)) - 1
       /\ DyCmp([m |-> MantN(f), e |-> ExpN(f) + Ilog(x) + 1], Mag(x)) = 0

LdexpOK(mode, x, es, r) ==
  IF IsNaN(x) THEN IsNaN(r)
  ELSE IF IsInf(x) \/ IsZero(x) THEN r = x
  ELSE LET v == [m |-> MantN(x), e |-> ExpN(x) + ClampedExp(es)]
           C(d) == DyCmp(v, d)
       IN RoundsTo(mode, Sign(x), C, r)

\* ilogb: c0 / cnan / cinf are the platform's FP_ILOGB0, FP_ILOGBNAN, INT_MAX images
IlogbOK(x, r, c0, cnan, cinf) ==
  IF IsNaN(x) THEN r = cnan ELSE IF IsInf(x) THEN r = cinf ELSE IF IsZero(x) THEN r = c0
  ELSE r = IntEnc(Ilog(x), Len(r))
\* logb: the same exponent as a floating-point value; -inf / +inf / NaN for 0 / inf / NaN
LogbOK(x, r) ==
  IF IsNaN(x) THEN IsNaN(r) ELSE IF IsInf(x) THEN r = PosInf(Len(x))
  ELSE IF IsZero(x) THEN r = SetSign(PosInf(Len(x)))
  ELSE LET E == Ilog(x) IN
       IF E = 0 THEN IsZero(r)
       ELSE /\ IsFinite(r) /\ Sign(r) = (IF E < 0 THEN 1 ELSE 0)
            /\ DyCmp(Mag(r), DyInt(FromNat(IF E < 0 THEN -E ELSE E))) = 0

\* "the other operand when exactly one is NaN" is what <cmath> defines for a QUIET NaN.  For a signalling NaN
\* C leaves the result open (Annex F does not cover signalling NaNs) and glibc's own fmax / fmin return a quiet
\* NaN (x + y); both answers are accepted for a signalling operand.
FmaxOK(a, b, r) ==
  IF IsNaN(a) /\ IsNaN(b) THEN IsNaN(r)
  ELSE IF IsNaN(a) THEN (r = b \/ (IsSNaN(a) /\ IsNaN(r))) ELSE IF IsNaN(b) THEN (r = a \/ (IsSNaN(b) /\ IsNaN(r)))
  ELSE LET c == FCmp(a, b) IN IF c > 0 THEN r = a ELSE IF c < 0 THEN r = b ELSE r \in {a, b}
FminOK(a, b, r) ==
  IF IsNaN(a) /\ IsNaN(b) THEN IsNaN(r)
  ELSE IF IsNaN(a) THEN (r = b \/ (IsSNaN(a) /\ IsNaN(r))) ELSE IF IsNaN(b) THEN (r = a \/ (IsSNaN(b) /\ IsNaN(r)))
  ELSE LET c == FCmp(a, b) IN IF c < 0 THEN r = a ELSE IF c > 0 THEN r = b ELSE r \in {a, b}
\* fdim: positive difference max(x - y, 0)
FdimOK(mode, a, b, r) ==
  IF IsNaN(a) \/ IsNaN(b) THEN IsNaN(r)
  ELSE IF FCmp(a, b) > 0 THEN SubOK(mode, a, b, r)
  ELSE IsZero(r)      \* "max(x-y, 0)": the sign of that zero is not part of the property
\* frac: x - trunc(x), exact
FracOK(x, r) ==
  IF IsNaN(x) \/ IsInf(x) THEN IsNaN(r)
  ELSE IF IsZero(x) \/ IsIntegralF(x) THEN IsZero(r)
  ELSE /\ IsFinite(r) /\ ~IsZero(r) /\ Sign(r) = Sign(x)
       /\ DyCmp(Mag(r), DyInt(<<1>>)) < 0
       /\ IF DyCmp(Mag(x), DyInt(<<1>>)) < 0 THEN r = x
          ELSE LET d == DySub(Mag(x), Mag(r)) IN DyIsInt(d)          \* |x| - |r| is a whole number

(* ----------------------- C07 floating-point part ---------------------- *)
FMinOK(a, b, r) == (IsNaN(a) \/ IsNaN(b)) \/
                   (LET c == FCmp(a, b) IN IF c < 0 THEN r = a ELSE IF c > 0 THEN r = b ELSE r \in {a, b})
FMaxOK(a, b, r) == (IsNaN(a) \/ IsNaN(b)) \/
                   (LET c == FCmp(a, b) IN IF c > 0 THEN r = a ELSE IF c < 0 THEN r = b ELSE r \in {a, b})
FClampOK(x, lo, hi, r) ==
  (IsNaN(x) \/ IsNaN(lo) \/ IsNaN(hi) \/ FCmp(lo, hi) >= 0) \/
  (IF FCmp(x, lo) < 0 THEN r = lo ELSE IF FCmp(x, hi) > 0 THEN r = hi
   ELSE IF FCmp(x, lo) = 0 THEN r \in {x, lo} ELSE IF FCmp(x, hi) = 0 THEN r \in {x, hi} ELSE r = x)

(***************************************************************************)
(* Fact judgement (k = "f").                                               *)
(***************************************************************************)
FM(e) == e.m = 1
B2(b) == IF b THEN 1 ELSE 0

FPFactOK(e) ==
  LET o == e.o IN
  /\ e.sig = "none"
  /\ CASE o = "add" -> AddOK(e.rm, e.a, e.b, e.r)
       [] o = "sub" -> SubOK(e.rm, e.a, e.b, e.r)
       [] o = "mul" -> MulOK(e.rm, e.a, e.b, e.r)
       [] o = "fdiv" -> DivOK(e.rm, e.a, e.b, e.r)
       [] o = "sqrt" -> SqrtOK(e.rm, e.a, e.r)
       [] o = "inc" -> AddOK(e.rm, e.a, OneF(Len(e.a)), e.r)
       [] o = "dec" -> SubOK(e.rm, e.a, OneF(Len(e.a)), e.r)
       [] o = "neg" -> e.r = FlipSign(e.a)
       [] o = "pos" -> e.r = e.a
       [] o = "id"  -> e.r = e.a
       [] o \in {"eq", "ne", "lt", "le", "gt", "ge"} -> e.r = B2(FCmpOp(o, e.a, e.b))
       [] o \in {"isgreater", "isgreaterequal", "isless", "islessequal", "islessgreater", "isunordered"}
                    -> e.r = B2(QuietOp(o, e.a, e.b))
       [] o = "fpclassify" -> e.r = Classify(e.a)
       [] o = "isnan"    -> e.r = B2(IsNaN(e.a))
       [] o = "isinf"    -> e.r = B2(IsInf(e.a))
       [] o = "isfinite" -> e.r = B2(IsFinite(e.a))
       [] o = "isnormal" -> e.r = B2(IsNormal(e.a))
       [] o = "signbit"  -> e.r = Sign(e.a)
       [] o \in {"ceil", "floor", "trunc", "round", "nearbyint", "rint"} -> RoundFnOK(o, e.rm, e.a, e.r)
       [] o = "frexp"  -> FrexpOK(e.a, e.r, e.ex)
       \* C12 says "correctly rounded" without naming the mode: a result that is the
       \* correct rounding under the current mode or under round-to-nearest is accepted
       [] o = "ldexp"  -> LdexpOK(e.rm, e.a, e.ex, e.r) \/ LdexpOK("RN", e.a, e.ex, e.r)
       [] o = "ilogb"  -> IlogbOK(e.a, e.r, e.c0, e.cnan, e.cinf)
       [] o = "logb"   -> LogbOK(e.a, e.r)
       [] o = "fmax"   -> FmaxOK(e.a, e.b, e.r)
       [] o = "fmin"   -> FminOK(e.a, e.b, e.r)
       [] o = "fdim"   -> FdimOK(e.rm, e.a, e.b, e.r)
       [] o = "frac"   -> FracOK(e.a, e.r)
       [] o = "abs"      -> e.r = ClearSign(e.a)
       [] o = "neg_abs"  -> e.r = SetSign(e.a)
       [] o = "negate"   -> e.r = (IF FM(e) THEN FlipSign(e.a) ELSE e.a)
       [] o = "copysign" -> e.r = WithSign(e.a, Sign(e.b))
       [] o = "blend"  -> e.r = (IF FM(e) THEN e.a ELSE e.b)
       [] o = "keep"   -> e.r = (IF FM(e) THEN e.a ELSE Zeros(Len(e.a)))
       [] o = "clear"  -> e.r = (IF FM(e) THEN Zeros(Len(e.a)) ELSE e.a)
       [] o = "min"    -> FMinOK(e.a, e.b, e.r)
       [] o = "max"    -> FMaxOK(e.a, e.b, e.r)
       [] o = "clamp"  -> FClampOK(e.a, e.b, e.c, e.r)
       [] o = "b2v"    -> e.r = (IF FM(e) THEN OneF(Len(e.r)) ELSE Zeros(Len(e.r)))
       [] o = "nz"     -> e.r = B2(IsNaN(e.a) \/ ~IsZero(e.a))     \* compares unequal to zero
       [] o = "byteswap" -> e.r = ByteSwap(e.a)
       [] o = "bit_cast" -> e.r = e.a
       [] o = "conv"   -> e.r = e.a                                 \* identity conversion
       [] OTHER -> FALSE
=============================================================================
