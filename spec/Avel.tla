-------------------------------- MODULE Avel --------------------------------
(***************************************************************************)
(* The AVEL abstract machine as ONE specification: a register file of      *)
(* vectors (sequences of lanes), a register file of masks (sequences of    *)
(* BOOLEAN), a byte memory, and the floating-point environment.  Every     *)
(* public operation family is one named action built from the same         *)
(* constant-level operator modules that judge the real code in trace       *)
(* validation (IntLane, Mask, Mem, FEnv).                                  *)
(*                                                                         *)
(* The component instances (MC_IntLane, MC_Mask, MC_Mem, MC_Alloc,         *)
(* MC_Config) check the *meaning* of each operation against the            *)
(* declarative property on larger domains.  This module checks what only   *)
(* the composed machine can express:                                       *)
(*   Frame             an operation changes its destination and nothing    *)
(*                     else: no other register, no memory byte outside a   *)
(*                     store's range, not the FP environment               *)
(*   EnvOnlyBySetEnv   the rounding mode changes only by the program's own *)
(*                     SetEnv step (C11, all operations)                   *)
(*   MaskIsBooleans    comparison results are masks whose lanes are the    *)
(*                     scalar truth values (C02/C03 link)                  *)
(* Bounded instance: N lanes of one byte over a small lane domain.         *)
(***************************************************************************)
EXTENDS IntLane, Mask, Mem, FEnv, TLC

CONSTANTS N,        \* lanes per vector
          LaneDom,  \* set of lane values (naturals < 256) used by Init / SetLane
          VRegs, KRegs,
          MemSize   \* bytes of memory (a multiple of N)

VARIABLES V,        \* VRegs -> Seq of N lanes (each <<byte>>)
          K,        \* KRegs -> Seq of N BOOLEAN
          mem,      \* 1..MemSize -> byte
          env,      \* rounding mode
          last,     \* ghost: the last action and the pre-state it ran in
          depth     \* ghost: steps taken (bounds the exploration; see Bounded)
vars == <<V, K, mem, env, last, depth>>
View == <<V, K, mem, env>>

Kind == "u"
LaneOf(n) == <<n>>
Lanes == {LaneOf(n) : n \in LaneDom}
Image(v) == [b \in 1..N |-> v[b][1]]                 \* byte image of a vector (w = 1)
FromImage(img) == [i \in 1..N |-> <<img[i]>>]
Pre == [V |-> V, K |-> K, mem |-> mem, env |-> env]

Init == /\ V = [r \in VRegs |-> [i \in 1..N |-> LaneOf(0)]]
        /\ K = [r \in KRegs |-> [i \in 1..N |-> FALSE]]
        /\ mem = [a \in 1..MemSize |-> 0]
        /\ env = "RN"
        /\ last = [a |-> "init", d |-> "none", pre |-> <<>>] /\ depth = 0

Note(a, d) == last' = [a |-> a, d |-> d, pre |-> Pre] /\ depth' = depth + 1
CONSTANT MaxDepth
Bounded == depth < MaxDepth

\* the program puts a value into one lane (models construction from an array)
SetLane(r, i, x) == /\ V' = [V EXCEPT ![r][i] = x] /\ Note("setlane", r) /\ UNCHANGED <<K, mem, env>>
\* lane-wise binary / unary integer operations (C01, C04, C07)
VBin(o, d, a, b) == /\ V' = [V EXCEPT ![d] = [i \in 1..N |-> IntBin(o, Kind, V[a][i], V[b][i])]]
                    /\ Note(o, d) /\ UNCHANGED <<K, mem, env>>
VUn(o, d, a) == /\ \A i \in 1..N : IntUnDomain(o, Kind, V[a][i])
                /\ V' = [V EXCEPT ![d] = [i \in 1..N |-> IntUn(o, Kind, V[a][i])]]
                /\ Note(o, d) /\ UNCHANGED <<K, mem, env>>
\* comparisons produce masks (C02)
VCmp(o, k, a, b) == /\ K' = [K EXCEPT ![k] = [i \in 1..N |-> CmpOp(o, Kind, V[a][i], V[b][i])]]
                    /\ Note(o, k) /\ UNCHANGED <<V, mem, env>>
\* mask algebra (C03)
KBin(o, k, a, b) == /\ K' = [K EXCEPT ![k] = MaskOp(o, K[a], K[b], <<>>)]
                    /\ Note(o, k) /\ UNCHANGED <<V, mem, env>>
KNot(k, a) == K' = [K EXCEPT ![k] = MNot(K[a])] /\ Note("m_not", k) /\ UNCHANGED <<V, mem, env>>
\* selection through a mask (C07)
VBlend(d, k, a, b) == /\ V' = [V EXCEPT ![d] = [i \in 1..N |-> Blend(K[k][i], V[a][i], V[b][i])]]
                      /\ Note("blend", d) /\ UNCHANGED <<K, mem, env>>
\* memory transfers of the first n lanes at byte offset p (C08)
Load(d, p, n) == /\ p + N - 1 <= MemSize
                 /\ V' = [V EXCEPT ![d] = FromImage(LoadResult(SubSeq(mem, p, p + N - 1), n, N, 1))]
                 /\ Note("load", d) /\ UNCHANGED <<K, mem, env>>
Store(a, p, n) == /\ p + N - 1 <= MemSize
                  /\ mem' = [x \in 1..MemSize |-> IF x >= p /\ x < p + Active(n, N) THEN Image(V[a])[x - p + 1] ELSE mem[x]]
                  /\ last' = [a |-> "store", d |-> <<p, n>>, pre |-> Pre] /\ depth' = depth + 1 /\ UNCHANGED <<V, K, env>>
\* the program itself changes the rounding mode
SetEnv(m) == env' = m /\ Note("setenv", "env") /\ UNCHANGED <<V, K, mem>>

Next ==
  \/ \E r \in VRegs, i \in 1..N, x \in Lanes : SetLane(r, i, x)
  \/ \E o \in {"add", "sub", "mul", "and", "xor", "min", "max", "average"}, d \in VRegs, a \in VRegs, b \in VRegs : VBin(o, d, a, b)
  \/ \E o \in {"neg", "not", "popcount", "bit_ceil"}, d \in VRegs, a \in VRegs : VUn(o, d, a)
  \/ \E o \in {"eq", "lt", "ge"}, k \in KRegs, a \in VRegs, b \in VRegs : VCmp(o, k, a, b)
  \/ \E o \in {"m_and", "m_or", "m_xor"}, k \in KRegs, a \in KRegs, b \in KRegs : KBin(o, k, a, b)
  \/ \E k \in KRegs, a \in KRegs : KNot(k, a)
  \/ \E d \in VRegs, k \in KRegs, a \in VRegs, b \in VRegs : VBlend(d, k, a, b)
  \/ \E d \in VRegs, p \in 1..MemSize, n \in 0..(N + 1) : Load(d, p, n) \/ Store(d, p, n)
  \/ \E m \in Modes : SetEnv(m)
Spec == Init /\ [][Next]_vars

(***************************************************************************)
(* Properties of the composed machine (state invariants over the ghost).   *)
(***************************************************************************)
VecOps == BinOps \cup UnOps
\* (Lane independence needs no invariant here: every vector action is *defined* lane-wise,
\*  [i |-> f(a[i], b[i])]; that the code computes lanes independently is what conformance checks,
\*  by giving every lane different operands and moving operands between lanes.)

Frame ==
  /\ (last.a \notin {"init", "setenv"} => env = last.pre.env)
  /\ (last.a \notin {"init", "store"} => mem = last.pre.mem)
  /\ (last.a = "store" =>
        LET p == last.d[1]  n == last.d[2] IN
        \A x \in 1..MemSize : (x < p \/ x >= p + Active(n, N)) => mem[x] = last.pre.mem[x])
  /\ (last.a \in VecOps \cup {"blend", "load", "setlane"} =>
        /\ K = last.pre.K
        /\ \A r \in VRegs : r # last.d => V[r] = last.pre.V[r])
  /\ (last.a \in CmpOps \cup {"m_and", "m_or", "m_xor", "m_not"} =>
        /\ V = last.pre.V
        /\ \A r \in KRegs : r # last.d => K[r] = last.pre.K[r])
EnvOnlyBySetEnv == (last.a # "init" /\ env # last.pre.env) => last.a = "setenv"
MaskIsBooleans == \A r \in KRegs : K[r] \in [1..N -> BOOLEAN]
TypeOK == /\ \A r \in VRegs : \A i \in 1..N : IsByteSeq(V[r][i], 1)
          /\ env \in Modes
=============================================================================
