-------------------------------- MODULE Avel --------------------------------
(***************************************************************************)
(* The AVEL abstract machine as ONE specification: a register file of      *)
(* vectors (N lanes of W bytes), a register file of masks (N BOOLEANs), a  *)
(* byte memory, and the floating-point environment.  Every public          *)
(* operation family is one named action built from the same constant-level *)
(* operator modules that judge single calls in TraceFacts (IntLane, Mask,  *)
(* Mem, FEnv).  The machine is configuration independent: which #if arm    *)
(* computes a result is not part of the state.                             *)
(*                                                                         *)
(* Three uses of this one module:                                          *)
(*   MC_Avel.cfg     bounded exploration (TLC, all behaviours up to        *)
(*                   MaxDepth over a small lane domain): Frame,            *)
(*                   EnvOnlyBySetEnv, MaskIsBooleans                       *)
(*   TraceAvel.tla   trace validation: register programs executed by the   *)
(*                   real vector / mask types (harness/drv_prog.cpp) are   *)
(*                   replayed; every event must be a step of one of the    *)
(*                   actions below, taken from the specification's own     *)
(*                   state                                                 *)
(*   Gen_Avel.tla    TLC -simulate writes random behaviours of this        *)
(*                   machine; harness/replay_prog.cpp steps the real       *)
(*                   objects through them and compares every post-state    *)
(*                                                                         *)
(* Each action is written as  Var' = [Var EXCEPT ![d] = <Result operator>] *)
(* so that the result operators (VBinRes, VCmpRes, LoadRes, StoreRes ...)  *)
(* are shared verbatim by the three uses.                                  *)
(***************************************************************************)
EXTENDS IntLane, Mask, Mem, FEnv, TLC

CONSTANTS N,        \* lanes per vector
          W,        \* bytes per lane (1, 2, 4, 8)
          Kind,     \* "u" or "i": signedness of the element type
          LaneDom,  \* set of lane values (naturals < 256, zero-extended to W bytes) used by SetLane in bounded exploration
          VRegs, KRegs,
          MemSize,  \* bytes of memory
          MaxDepth

VARIABLES V,        \* VRegs -> Seq of N lanes (each a W-byte sequence)
          K,        \* KRegs -> Seq of N BOOLEAN
          mem,      \* 1..MemSize -> byte
          env,      \* rounding mode
          last,     \* ghost: the last action and the pre-state it ran in
          depth     \* ghost: steps taken (bounds the exploration; see Bounded)
vars == <<V, K, mem, env, last, depth>>
View == <<V, K, mem, env>>

ZeroLane == [b \in 1..W |-> 0]
OneLane  == [b \in 1..W |-> IF b = 1 THEN 1 ELSE 0]
OnesLane == [b \in 1..W |-> 255]
\* byte image of a vector (what store / to_array produce) and back
Image(v) == [b \in 1..(N * W) |-> v[((b - 1) \div W) + 1][((b - 1) % W) + 1]]
FromImage(img) == [i \in 1..N |-> SubSeq(img, (i - 1) * W + 1, i * W)]
Pre == [V |-> V, K |-> K, mem |-> mem, env |-> env]

Init == /\ V = [r \in VRegs |-> [i \in 1..N |-> ZeroLane]]
        /\ K = [r \in KRegs |-> [i \in 1..N |-> FALSE]]
        /\ mem = [a \in 1..MemSize |-> 0]
        /\ env = "RN"
        /\ last = [a |-> "init", f |-> "init", d |-> "none", x |-> <<>>, pre |-> <<>>] /\ depth = 0

\* ghost: a = operation name, f = action family, d = destination, x = the other arguments, pre = the state it ran in
Note(a, f, d, x) == last' = [a |-> a, f |-> f, d |-> d, x |-> x, pre |-> Pre] /\ depth' = depth + 1
Bounded == depth < MaxDepth

(***************************************************************************)
(* Result operators (functions of the current state).                      *)
(***************************************************************************)
VBinRes(o, a, b)   == [i \in 1..N |-> IntBin(o, Kind, V[a][i], V[b][i])]
VUnRes(o, a)       == [i \in 1..N |-> IntUn(o, Kind, V[a][i])]
VUnDomL(o, a)      == [i \in 1..N |-> IntUnDomain(o, Kind, V[a][i])]       \* lanes whose result is specified
VUnDom(o, a)       == \A i \in 1..N : VUnDomL(o, a)[i]
\* shift / rotate by one scalar amount s (a W-byte sequence) and by a per-lane vector of amounts
VShiftRes(o, a, s) == [i \in 1..N |-> IntShift(o, Kind, V[a][i], s)]
VShiftDomL(o, a, s) == [i \in 1..N |-> IntShiftDomain(o, V[a][i], s)]
VShiftDom(o, a, s) == \A i \in 1..N : VShiftDomL(o, a, s)[i]
VShiftVRes(o, a, b) == [i \in 1..N |-> IntShift(o, Kind, V[a][i], V[b][i])]
VShiftVDomL(o, a, b) == [i \in 1..N |-> IntShiftDomain(o, V[a][i], V[b][i])]
VShiftVDom(o, a, b) == \A i \in 1..N : VShiftVDomL(o, a, b)[i]
VCmpRes(o, a, b)   == [i \in 1..N |-> CmpOp(o, Kind, V[a][i], V[b][i])]
KBinRes(o, a, b)   == MaskOp(o, K[a], K[b], <<>>)
VBlendRes(k, a, b) == [i \in 1..N |-> Blend(K[k][i], V[a][i], V[b][i])]
VKeepRes(k, a)     == [i \in 1..N |-> Keep(K[k][i], V[a][i])]
VClearRes(k, a)    == [i \in 1..N |-> Clear(K[k][i], V[a][i])]
VNegateRes(k, a)   == [i \in 1..N |-> Negate(K[k][i], V[a][i])]
VSetBitsRes(k)     == [i \in 1..N |-> SetBits(K[k][i], W)]
VFromMaskRes(k)    == [i \in 1..N |-> IF K[k][i] THEN OneLane ELSE ZeroLane]      \* Vector(mask): 1 / 0
KFromVecRes(a)     == [i \in 1..N |-> ~BNIsZero(V[a][i])]                          \* mask(vector): lane != 0
\* memory: p is a 1-based byte offset, n a lane count
InMem(p)           == p >= 1 /\ p + N * W - 1 <= MemSize
LoadRes(p, n)      == FromImage(LoadResult(SubSeq(mem, p, p + N * W - 1), n, N, W))
StoreRes(a, p, n)  == [x \in 1..MemSize |->
                         IF x >= p /\ x < p + Active(n, N) * W THEN Image(V[a])[x - p + 1] ELSE mem[x]]
\* gather / scatter of the first n lanes (32- and 64-bit lanes): lane i addresses element (p - 1) \div W + index,
\* the index being lane i of register b read as a signed number.  Only indices that stay inside the memory are in
\* the domain; inactive lanes (i > n) are never looked at.
IdxSmallPos(x) == \A j \in 2..W : x[j] = 0
IdxSmallNeg(x) == \A j \in 2..W : NegW(x)[j] = 0
IdxSmall(x)    == IF IdxSmallPos(x) THEN TRUE ELSE IdxSmallNeg(x)     \* (IF, not \/: TLC splits a disjunction inside an action into two successors)
IdxVal(x)      == IF IdxSmallPos(x) THEN x[1] ELSE 0 - NegW(x)[1]
ElemCount      == MemSize \div W
Target(p, b, i) == (p - 1) \div W + IdxVal(V[b][i])                   \* 0-based element position
GSDom(p, b, n) == /\ InMem(p) /\ (p - 1) % W = 0
                  /\ \A i \in 1..Active(n, N) : /\ IdxSmall(V[b][i])
                                                 /\ Target(p, b, i) \in 0..(ElemCount - 1)
ScatterDom(p, b, n) == /\ GSDom(p, b, n)
                       /\ \A i, j \in 1..Active(n, N) : i # j => Target(p, b, i) # Target(p, b, j)   \* either value could win
GatherRes(p, b, n) == [i \in 1..N |-> IF i <= Active(n, N) THEN SubSeq(mem, Target(p, b, i) * W + 1, Target(p, b, i) * W + W)
                                       ELSE ZeroLane]
ScatterRes(a, p, b, n) ==
  [x \in 1..MemSize |->
     LET el == (x - 1) \div W
         hit == {i \in 1..Active(n, N) : Target(p, b, i) = el}
     IN IF hit = {} THEN mem[x] ELSE V[a][CHOOSE i \in hit : TRUE][((x - 1) % W) + 1]]
\* extract<I> / insert<I> (I 0-based)
VInsertRes(a, I, x) == [V[a] EXCEPT ![I + 1] = x]

(***************************************************************************)
(* Actions: one per public operation family.                               *)
(***************************************************************************)
PutV(d, val, name, f, x) == V' = [V EXCEPT ![d] = val] /\ Note(name, f, d, x) /\ UNCHANGED <<K, mem, env>>
PutK(k, val, name, f, x) == K' = [K EXCEPT ![k] = val] /\ Note(name, f, k, x) /\ UNCHANGED <<V, mem, env>>

\* construction from an array / insertion of one lane
SetVec(d, lanes)      == PutV(d, lanes, "setvec", "setvec", <<>>)
SetLane(r, i, x)      == PutV(r, [V[r] EXCEPT ![i] = x], "setlane", "setvec", <<>>)
VInsert(d, a, I, x)   == I \in 0..(N - 1) /\ PutV(d, VInsertRes(a, I, x), "insert", "insert", <<a, I, x>>)
\* lane-wise integer operations (C01, C04, C06, C07)
VBin(o, d, a, b)      == PutV(d, VBinRes(o, a, b), o, "bin", <<a, b>>)
VUn(o, d, a)          == VUnDom(o, a) /\ PutV(d, VUnRes(o, a), o, "un", <<a>>)
VShift(o, d, a, s)    == VShiftDom(o, a, s) /\ PutV(d, VShiftRes(o, a, s), o, "shift", <<a, s>>)
VShiftV(o, d, a, b)   == VShiftVDom(o, a, b) /\ PutV(d, VShiftVRes(o, a, b), o, "shiftv", <<a, b>>)
\* integer division (C05) is a relation accepted by postcondition: both results are parameters of the step and every
\* lane inside the domain must satisfy DivRel; a zero divisor (or MIN / -1) leaves that lane of both results open.
\* Two destinations, so the step is not a VecAct: Frame has its own clause.
VDivOK(a, b, q, r)    == \A i \in 1..N : DivDomain(Kind, V[a][i], V[b][i]) => DivRel(Kind, V[a][i], V[b][i], q[i], r[i])
VDiv(dq, dr, a, b, q, r) == /\ dq # dr /\ (VDivOK(a, b, q, r) = TRUE)      \* (= TRUE: evaluated as a state predicate; as an action conjunct TLC
                                                                          \*  would split the disjunctions inside DivRel into successors)
                            /\ V' = [V EXCEPT ![dq] = q, ![dr] = r]
                            /\ Note("div", "div", <<dq, dr>>, <<a, b>>) /\ UNCHANGED <<K, mem, env>>
\* comparisons produce masks (C02); mask algebra (C03)
VCmp(o, k, a, b)      == PutK(k, VCmpRes(o, a, b), o, "cmp", <<a, b>>)
KBin(o, k, a, b)      == PutK(k, KBinRes(o, a, b), o, "kbin", <<a, b>>)
KNot(k, a)            == PutK(k, MNot(K[a]), "m_not", "knot", <<a>>)
KInsert(k, a, I, b)   == I \in 0..(N - 1) /\ PutK(k, MIns(K[a], I + 1, b), "m_insert", "kins", <<a, I, IF b THEN 1 ELSE 0>>)
KSet(k, m)            == PutK(k, m, "m_set", "kset", <<>>)
\* selection through a mask (C07), mask <-> vector conversions (C03)
VBlend(d, k, a, b)    == PutV(d, VBlendRes(k, a, b), "blend", "blend", <<k, a, b>>)
VKeep(d, k, a)        == PutV(d, VKeepRes(k, a), "keep", "keep", <<k, a>>)
VClear(d, k, a)       == PutV(d, VClearRes(k, a), "clear", "clear", <<k, a>>)
VNegate(d, k, a)      == PutV(d, VNegateRes(k, a), "negate", "negate", <<k, a>>)
VSetBits(d, k)        == PutV(d, VSetBitsRes(k), "set_bits", "set_bits", <<k>>)
VFromMask(d, k)       == PutV(d, VFromMaskRes(k), "b2v", "b2v", <<k>>)
KFromVec(k, a)        == PutK(k, KFromVecRes(a), "nz", "nz", <<a>>)
\* memory transfers of the first n lanes at byte offset p (C08, C09)
Load(d, p, n)         == InMem(p) /\ PutV(d, LoadRes(p, n), "load", "load", <<p, n>>)
Store(a, p, n)        == /\ InMem(p)
                         /\ mem' = StoreRes(a, p, n)
                         /\ last' = [a |-> "store", f |-> "store", d |-> <<p, n>>, x |-> <<a>>, pre |-> Pre] /\ depth' = depth + 1
                         /\ UNCHANGED <<V, K, env>>
Gather(d, p, b, n)    == GSDom(p, b, n) /\ PutV(d, GatherRes(p, b, n), "gather", "gather", <<p, b, n>>)
Scatter(a, p, b, n)   == /\ ScatterDom(p, b, n)
                         /\ mem' = ScatterRes(a, p, b, n)
                         /\ last' = [a |-> "scatter", f |-> "scatter", d |-> <<p, n>>, x |-> <<a, b>>, pre |-> Pre] /\ depth' = depth + 1
                         /\ UNCHANGED <<V, K, env>>
\* the program itself changes the rounding mode: the ONLY action that may (C11)
SetEnv(m)             == env' = m /\ Note("setenv", "setenv", "env", <<m>>) /\ UNCHANGED <<V, K, mem>>

MCBin   == {"add", "sub", "mul", "and", "xor", "min", "max", "average"}
MCUn    == {"neg", "not", "popcount", "bit_ceil"}
MCCmp   == {"eq", "lt", "ge"}
MCKBin  == {"m_and", "m_or", "m_xor"}
Next ==
  \/ \E r \in VRegs, i \in 1..N, x \in LaneDom : SetLane(r, i, NumW(x, W))
  \/ \E o \in MCBin, d \in VRegs, a \in VRegs, b \in VRegs : VBin(o, d, a, b)
  \/ \E o \in MCUn, d \in VRegs, a \in VRegs : VUn(o, d, a)
  \/ \E o \in MCCmp, k \in KRegs, a \in VRegs, b \in VRegs : VCmp(o, k, a, b)
  \/ \E o \in MCKBin, k \in KRegs, a \in KRegs, b \in KRegs : KBin(o, k, a, b)
  \/ \E k \in KRegs, a \in KRegs : KNot(k, a)
  \/ \E d \in VRegs, k \in KRegs, a \in VRegs, b \in VRegs : VBlend(d, k, a, b)
  \/ \E d \in VRegs, k \in KRegs : VFromMask(d, k) \/ VSetBits(d, k)
  \/ \E k \in KRegs, a \in VRegs : KFromVec(k, a)
  \/ \E d \in VRegs, p \in 1..MemSize, n \in 0..(N + 1) : Load(d, p, n) \/ Store(d, p, n)
  \/ \E m \in Modes : SetEnv(m)
  \* (bounded exploration runs with one-byte unsigned lanes, where the quotient is a function of naturals; an open
  \* lane takes 0 - any value would do)
  \/ /\ W = 1 /\ Kind = "u"
     /\ \E dq \in VRegs, dr \in VRegs, a \in VRegs, b \in VRegs :
          VDiv(dq, dr, a, b, [i \in 1..N |-> IF V[b][i][1] = 0 THEN ZeroLane ELSE <<V[a][i][1] \div V[b][i][1]>>],
                             [i \in 1..N |-> IF V[b][i][1] = 0 THEN ZeroLane ELSE <<V[a][i][1] % V[b][i][1]>>])
Spec == Init /\ [][Next]_vars

(***************************************************************************)
(* Properties of the composed machine (state invariants over the ghost).   *)
(***************************************************************************)
VecActs == BinOps \cup UnOps \cup ShiftOps \cup {"blend", "keep", "clear", "negate", "set_bits", "b2v", "load", "gather",
                                                  "setlane", "setvec", "insert"}
MaskActs == CmpOps \cup {"m_and", "m_or", "m_xor", "m_not", "m_insert", "m_set", "nz"}
\* (Lane independence needs no invariant here: every vector action is *defined* lane-wise,
\*  [i |-> f(a[i], b[i])]; that the code computes lanes independently is what conformance checks,
\*  by giving every lane different operands and moving operands between lanes.)

Frame ==
  \* ("force" is taken by the trace specification only: the state is set to what the real objects show)
  /\ (last.a \notin {"init", "setenv", "force"} => env = last.pre.env)
  /\ (last.a \notin {"init", "store", "scatter", "force"} => mem = last.pre.mem)
  /\ (last.a = "store" =>
        LET p == last.d[1]  n == last.d[2] IN
        \A x \in 1..MemSize : (x < p \/ x >= p + Active(n, N) * W) => mem[x] = last.pre.mem[x])
  /\ (last.a \in VecActs =>
        /\ K = last.pre.K
        /\ \A r \in VRegs : r # last.d => V[r] = last.pre.V[r])
  /\ (last.a = "div" =>
        /\ K = last.pre.K
        /\ \A r \in VRegs : (r # last.d[1] /\ r # last.d[2]) => V[r] = last.pre.V[r])
  /\ (last.a \in MaskActs =>
        /\ V = last.pre.V
        /\ \A r \in KRegs : r # last.d => K[r] = last.pre.K[r])
EnvOnlyBySetEnv == (last.a # "init" /\ env # last.pre.env) => last.a \in {"setenv", "force"}
MaskIsBooleans == \A r \in KRegs : K[r] \in [1..N -> BOOLEAN]
TypeOK == /\ \A r \in VRegs : \A i \in 1..N : IsByteSeq(V[r][i], W)
          /\ env \in Modes
=============================================================================
