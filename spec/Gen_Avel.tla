------------------------------ MODULE Gen_Avel ------------------------------
(***************************************************************************)
(* TLC -> code for the composed abstract machine.                          *)
(*                                                                         *)
(* TLC (-simulate) walks random behaviours of Avel.tla: at every step one  *)
(* action of Avel.tla is chosen with its arguments (TLC!RandomElement, so  *)
(* that a step costs one successor, not the whole fan-out of Next) and     *)
(* taken.  Every step is printed as one JSON line: the action, its         *)
(* arguments and the post-state of the destination as THIS specification   *)
(* computes it.  harness/drv_prog.cpp (family "replay") steps real         *)
(* avel::Vector / Vector_mask objects, a real byte arena and the real      *)
(* rounding mode through the behaviour; the orchestrator compares what the *)
(* real objects show after each step with the printed post-state.          *)
(*                                                                         *)
(* Operations whose result the documentation leaves open for some inputs   *)
(* (shift amounts above the width, bit_floor of a negative value) are only *)
(* generated inside their domain; outside it a SetLane step is taken.      *)
(***************************************************************************)
EXTENDS Avel, Json

\* (depth makes the expression state-level: TLC evaluates constant-level expressions once and caches them)
Pick(S) == RandomElement(IF depth >= 0 THEN S ELSE {})
AnyLane == [b \in 1..W |-> Pick(0..255)]
\* interesting lanes: boundary patterns more often than uniform noise
GenLane == LET c == Pick(1..8) IN
           CASE c = 1 -> ZeroLane [] c = 2 -> OneLane [] c = 3 -> OnesLane
             [] c = 4 -> MinW(W) [] c = 5 -> NotW(MinW(W))
             [] c = 6 -> NumW(Pick(0..(8 * W)), W)              \* a shift amount
             [] OTHER -> AnyLane
GenAmt == NumW(Pick(0..(8 * W)), 8)                             \* scalar shift amount (8-byte little endian)
GenRot == NumW(Pick(0..(3 * 8 * W)), 8)
Offsets == {p \in 1..MemSize : InMem(p) /\ (p - 1) % W = 0}
\* a small signed number as an index lane
IdxLane(v) == IF v >= 0 THEN NumW(v, W) ELSE NegW(NumW(0 - v, W))

GBin   == {"add", "sub", "mul", "and", "or", "xor", "min", "max", "average", "midpoint"}
GUn    == {"neg", "not", "popcount", "countl_zero", "countl_one", "countr_zero", "countr_one", "byteswap", "inc", "dec"}
           \cup (IF Kind = "u" THEN {"bit_width", "bit_floor", "bit_ceil"} ELSE {"countl_sign", "abs", "neg_abs"})
GKBin  == {"m_and", "m_or", "m_xor", "m_land", "m_lor"}

Fallback == \E r \in {Pick(VRegs)}, i \in {Pick(1..N)}, x \in {GenLane} : SetVec(r, [V[r] EXCEPT ![i] = x])

GenNext ==
  \E c \in {Pick(1..27)}, d \in {Pick(VRegs)}, a \in {Pick(VRegs)}, b \in {Pick(VRegs)},
     k \in {Pick(KRegs)}, ka \in {Pick(KRegs)}, kb \in {Pick(KRegs)} :
    CASE c = 1  -> SetVec(d, [i \in 1..N |-> GenLane])
      [] c = 2  -> KSet(k, [i \in 1..N |-> Pick(BOOLEAN)])
      [] c \in {3, 4, 5} -> \E o \in {Pick(GBin)} : VBin(o, d, a, b)
      [] c \in {6, 7} -> \E o \in {Pick(GUn)} : IF VUnDom(o, a) THEN VUn(o, d, a) ELSE Fallback
      [] c = 8  -> \E o \in {Pick({"shl", "shr"})}, s \in {GenAmt} : VShift(o, d, a, s)
      [] c = 9  -> \E o \in {Pick({"rotl", "rotr"})}, s \in {GenRot} : VShift(o, d, a, s)
      [] c = 10 -> \E o \in {Pick({"shl", "shr", "rotl", "rotr"})} : IF VShiftVDom(o, a, b) THEN VShiftV(o, d, a, b) ELSE Fallback
      [] c \in {11, 12} -> \E o \in {Pick(CmpOps)} : VCmp(o, k, a, b)
      [] c = 13 -> \E o \in {Pick(GKBin)} : KBin(o, k, ka, kb)
      [] c = 14 -> KNot(k, ka)
      [] c = 15 -> \E I \in {Pick(0..(N - 1))}, bv \in {Pick(BOOLEAN)} : KInsert(k, ka, I, bv)
      [] c = 16 -> VBlend(d, k, a, b)
      [] c = 17 -> \E w \in {Pick(1..3)} : CASE w = 1 -> VKeep(d, k, a) [] w = 2 -> VClear(d, k, a) [] OTHER -> VNegate(d, k, a)
      [] c = 18 -> \E w \in {Pick(1..2)} : IF w = 1 THEN VSetBits(d, k) ELSE VFromMask(d, k)
      [] c = 19 -> KFromVec(k, a)
      [] c = 20 -> \E I \in {Pick(0..(N - 1))}, x \in {GenLane} : VInsert(d, a, I, x)
      [] c \in {21, 22} -> \E p \in {Pick(Offsets)}, n \in {Pick(0..(N + 1))} : Load(d, p, n)
      [] c = 23 -> \E p \in {Pick(Offsets)}, n \in {Pick(0..(N + 1))} : Store(a, p, n)
      \* an index register is written first (SetVec with in-range indices), the transfer follows in the next step
      [] c = 25 /\ W >= 4 -> \E p \in {Pick(Offsets)} : SetVec(b, [i \in 1..N |-> IdxLane(Pick(0..(ElemCount - 1)) - (p - 1) \div W)])
      [] c = 26 /\ W >= 4 -> \E p \in {Pick(Offsets)}, n \in {Pick(0..(N + 1))} : IF GSDom(p, b, n) THEN Gather(d, p, b, n) ELSE Fallback
      [] c = 27 /\ W >= 4 -> \E p \in {Pick(Offsets)}, n \in {Pick(0..(N + 1))} : IF ScatterDom(p, b, n) THEN Scatter(a, p, b, n) ELSE Fallback
      [] OTHER  -> SetEnv(Pick(Modes))
GenSpec == Init /\ [][GenNext]_vars

(***************************************************************************)
(* One JSON line per step (ACTION_CONSTRAINT, always TRUE).  The arguments *)
(* of the step are recovered from the ghost `last` and from the difference *)
(* between the two states, so Avel.tla needs no extra bookkeeping.         *)
(***************************************************************************)
MaskBits(m) == [i \in 1..N |-> IF m[i] THEN 1 ELSE 0]
Changed(R, X, Y) == {r \in R : X[r] # Y[r]}
Emit ==
  PrintT(ToJson([lvl  |-> TLCGet("level"),
                 op   |-> last'.a,
                 fam  |-> last'.f,
                 dst  |-> last'.d,
                 args |-> last'.x,
                 V    |-> [r \in VRegs |-> Image(V'[r])],
                 K    |-> [r \in KRegs |-> MaskBits(K'[r])],
                 mem  |-> mem',
                 env  |-> env']))
=============================================================================
