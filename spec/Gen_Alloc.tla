------------------------------ MODULE Gen_Alloc ------------------------------
(***************************************************************************)
(* TLC -> code for the allocator (C18: "every interleaving of allocations  *)
(* and deallocations").  The abstract history machine: the live blocks in  *)
(* allocation order, each with the index of its size; Alloc appends one,   *)
(* Dealloc removes the block at any position.  TLC explores the complete   *)
(* state graph (all sequences of up to MAXLIVE size indices) and prints    *)
(* every transition as <<"EDGE", pre, op, arg>>.  The replayer             *)
(* (harness/drv_alloc.cpp, family "allocgen") brings a real                *)
(* Aligned_allocator<T,A> into the pre-state (allocating the blocks in     *)
(* order and filling them), performs the operation, checks the fill        *)
(* patterns and releases everything; the event log of each such history    *)
(* (system allocator calls observed by interposition) is judged by         *)
(* TraceAlloc.tla: one implementation test per transition, for each of the *)
(* three implementations and every (T, A) instantiation.                   *)
(***************************************************************************)
EXTENDS Naturals, Sequences, TLC
CONSTANTS NSIZES, MAXLIVE
VARIABLES live, op
vars == <<live, op>>

Init == live = <<>> /\ op = <<"init", 0>>
Alloc(s) == Len(live) < MAXLIVE /\ live' = Append(live, s) /\ op' = <<"a", s>>
Dealloc(i) == /\ i \in 1..Len(live)
              /\ live' = [j \in 1..(Len(live) - 1) |-> IF j < i THEN live[j] ELSE live[j + 1]]
              /\ op' = <<"d", i>>
Next == (\E s \in 0..(NSIZES - 1) : Alloc(s)) \/ (\E i \in 1..MAXLIVE : Dealloc(i))
Spec == Init /\ [][Next]_vars
View == live
\* printed for every explored transition (always TRUE); the pre-state as a tuple of size indices
Emit == PrintT(<<"EDGE", live, op'[1], op'[2]>>)
=============================================================================
