SPECIFICATION Spec
CONSTANTS L = 1
          Dom <- Lat8
INVARIANTS C05u
CONSTRAINT InDom
VIEW View
CHECK_DEADLOCK FALSE
