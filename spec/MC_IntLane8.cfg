SPECIFICATION Spec
CONSTANTS L = 1
          Dom <- Dom8
INVARIANTS TypeOK C01 C02 C04 C05 C06 C07 C17
CONSTRAINT InDom
VIEW View
CHECK_DEADLOCK FALSE
