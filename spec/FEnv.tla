------------------------------- MODULE FEnv -------------------------------
(***************************************************************************)
(* The floating-point environment as AVEL can see and disturb it:          *)
(* rounding control of MXCSR and of the x87 control word, flush-to-zero    *)
(* and denormals-are-zero.  (Sticky exception flags are not part of it:    *)
(* C11 speaks of the rounding mode and the flush-to-zero settings.)        *)
(***************************************************************************)
Modes == {"RN", "RD", "RU", "RZ"}
Envs  == [rc : Modes, x87rc : Modes, ftz : {0, 1}, daz : {0, 1}]
DefaultEnv == [rc |-> "RN", x87rc |-> "RN", ftz |-> 0, daz |-> 0]

\* The mode "current at the call" for binary32 / binary64 lanes is the one the C library's own nearbyint / rint obey
\* on this platform: the rounding control of MXCSR (field rc).  fesetround sets both units; a program that writes
\* MXCSR alone (_MM_SET_ROUNDING_MODE, _mm_setcsr) puts them out of step, and the result must still follow rc - a
\* dispatch on fegetround() (which reads the x87 word) would follow x87rc.  Facts taken in such a state carry the
\* x87 mode as "x87"; it does not enter the expected result.
CurrentMode(env) == env.rc

\* An AVEL operation, whatever it is, is a step that leaves the environment as
\* it found it.  The only step allowed to change it is the program's own
\* fesetround / _mm_setcsr (SetEnv in Avel.tla).
AvelStepEnv(env, env2) == env2 = env

\* An "env" fact summarises all calls of one operation on one type under one
\* mode: the environment observed before the first and after every call.
EnvFactOK(e) ==
  AvelStepEnv([rc |-> e.rc0, x87rc |-> e.x87rc0, ftz |-> e.ftz0, daz |-> e.daz0],
              [rc |-> e.rc1, x87rc |-> e.x87rc1, ftz |-> e.ftz1, daz |-> e.daz1])
=============================================================================
