----------------------------- MODULE MC_Config -----------------------------
(***************************************************************************)
(* Bounded check of the configuration model: the closure operator is a     *)
(* closure (extensive, idempotent, monotone), the type table is monotone   *)
(* in the configuration and the vecMx alias is the widest type.            *)
(* States = macro sets reachable by naming one more macro (all 2^11        *)
(* subsets of the independent "leaf" macros are explored).                 *)
(***************************************************************************)
EXTENDS Config, TLC
VARIABLES named
Leaves == {"AVX512VL", "AVX512BW", "AVX512DQ", "AVX512CD", "GFNI", "FMA", "AVX2", "SSE4_1", "SSE2", "BMI2", "LZCNT"}
Init == named = {}
Next == \E m \in Leaves \ named : named' = named \cup {m}
Spec == Init /\ [][Next]_named

ClosureLaws ==
  LET C == Closure(named) IN
  /\ named \subseteq C
  /\ Closure(C) = C
  /\ \A m \in Leaves : C \subseteq Closure(named \cup {m})
  /\ \A m \in C : DocImplies[m] \subseteq C
  /\ (C # {} => "X86" \in C)
TableMonotone ==
  \A m \in Leaves : TypesOf(Closure(named)) \subseteq TypesOf(Closure(named \cup {m}))
AliasConsistent ==
  \A t \in ElemTypes : LET C == Closure(named) IN
     /\ <<t, MaxWidth(C, t)>> \in TypesOf(C)
     /\ \A p \in TypesOf(C) : p[1] = t => p[2] <= MaxWidth(C, t)
     /\ <<t, 1>> \in TypesOf(C)
     /\ (("AVX512F" \in C /\ ElemBits(t) >= 32) => MaxWidth(C, t) = 512 \div ElemBits(t))
=============================================================================
