---- MODULE MC_FPSelf_TTrace_1790471815 ----
EXTENDS Sequences, TLCExt, Toolbox, Naturals, TLC, MC_FPSelf

_expression ==
    LET MC_FPSelf_TEExpression == INSTANCE MC_FPSelf_TEExpression
    IN MC_FPSelf_TEExpression!expression
----

_trace ==
    LET MC_FPSelf_TETrace == INSTANCE MC_FPSelf_TETrace
    IN MC_FPSelf_TETrace!trace
----

_inv ==
    ~(
        TLCGet("level") = Len(_TETrace)
        /\
        nrej = (0)
        /\
        l = (227)
    )
----

_init ==
    /\ l = _TETrace[1].l
    /\ nrej = _TETrace[1].nrej
----

_next ==
    /\ \E i,j \in DOMAIN _TETrace:
        /\ \/ /\ j = i + 1
              /\ i = TLCGet("level")
        /\ l  = _TETrace[i].l
        /\ l' = _TETrace[j].l
        /\ nrej  = _TETrace[i].nrej
        /\ nrej' = _TETrace[j].nrej

\* Uncomment the ASSUME below to write the states of the error trace
\* to the given file in Json format. Note that you can pass any tuple
\* to `JsonSerialize`. For example, a sub-sequence of _TETrace.
    \* ASSUME
    \*     LET J == INSTANCE Json
    \*         IN J!JsonSerialize("MC_FPSelf_TTrace_1790471815.json", _TETrace)

=============================================================================

 Note that you can extract this module `MC_FPSelf_TEExpression`
  to a dedicated file to reuse `expression` (the module in the 
  dedicated `MC_FPSelf_TEExpression.tla` file takes precedence 
  over the module `MC_FPSelf_TEExpression` below).

---- MODULE MC_FPSelf_TEExpression ----
EXTENDS Sequences, TLCExt, Toolbox, Naturals, TLC, MC_FPSelf

expression == 
    [
        \* To hide variables of the `MC_FPSelf` spec from the error trace,
        \* remove the variables below.  The trace will be written in the order
        \* of the fields of this record.
        l |-> l
        ,nrej |-> nrej
        
        \* Put additional constant-, state-, and action-level expressions here:
        \* ,_stateNumber |-> _TEPosition
        \* ,_lUnchanged |-> l = l'
        
        \* Format the `l` variable as Json value.
        \* ,_lJson |->
        \*     LET J == INSTANCE Json
        \*     IN J!ToJson(l)
        
        \* Lastly, you may build expressions over arbitrary sets of states by
        \* leveraging the _TETrace operator.  For example, this is how to
        \* count the number of times a spec variable changed up to the current
        \* state in the trace.
        \* ,_lModCount |->
        \*     LET F[s \in DOMAIN _TETrace] ==
        \*         IF s = 1 THEN 0
        \*         ELSE IF _TETrace[s].l # _TETrace[s-1].l
        \*             THEN 1 + F[s-1] ELSE F[s-1]
        \*     IN F[_TEPosition - 1]
    ]

=============================================================================



Parsing and semantic processing can take forever if the trace below is long.
 In this case, it is advised to uncomment the module below to deserialize the
 trace from a generated binary file.

\*
\*---- MODULE MC_FPSelf_TETrace ----
\*EXTENDS IOUtils, TLC, MC_FPSelf
\*
\*trace == IODeserialize("MC_FPSelf_TTrace_1790471815.bin", TRUE)
\*
\*=============================================================================
\*

---- MODULE MC_FPSelf_TETrace ----
EXTENDS TLC, MC_FPSelf

trace == 
    <<
    ([nrej |-> 0,l |-> 1]),
    ([nrej |-> 0,l |-> 2]),
    ([nrej |-> 0,l |-> 3]),
    ([nrej |-> 0,l |-> 4]),
    ([nrej |-> 0,l |-> 5]),
    ([nrej |-> 0,l |-> 6]),
    ([nrej |-> 0,l |-> 7]),
    ([nrej |-> 0,l |-> 8]),
    ([nrej |-> 0,l |-> 9]),
    ([nrej |-> 0,l |-> 10]),
    ([nrej |-> 0,l |-> 11]),
    ([nrej |-> 0,l |-> 12]),
    ([nrej |-> 0,l |-> 13]),
    ([nrej |-> 0,l |-> 14]),
    ([nrej |-> 0,l |-> 15]),
    ([nrej |-> 0,l |-> 16]),
    ([nrej |-> 0,l |-> 17]),
    ([nrej |-> 0,l |-> 18]),
    ([nrej |-> 0,l |-> 19]),
    ([nrej |-> 0,l |-> 20]),
    ([nrej |-> 0,l |-> 21]),
    ([nrej |-> 0,l |-> 22]),
    ([nrej |-> 0,l |-> 23]),
    ([nrej |-> 0,l |-> 24]),
    ([nrej |-> 0,l |-> 25]),
    ([nrej |-> 0,l |-> 26]),
    ([nrej |-> 0,l |-> 27]),
    ([nrej |-> 0,l |-> 28]),
    ([nrej |-> 0,l |-> 29]),
    ([nrej |-> 0,l |-> 30]),
    ([nrej |-> 0,l |-> 31]),
    ([nrej |-> 0,l |-> 32]),
    ([nrej |-> 0,l |-> 33]),
    ([nrej |-> 0,l |-> 34]),
    ([nrej |-> 0,l |-> 35]),
    ([nrej |-> 0,l |-> 36]),
    ([nrej |-> 0,l |-> 37]),
    ([nrej |-> 0,l |-> 38]),
    ([nrej |-> 0,l |-> 39]),
    ([nrej |-> 0,l |-> 40]),
    ([nrej |-> 0,l |-> 41]),
    ([nrej |-> 0,l |-> 42]),
    ([nrej |-> 0,l |-> 43]),
    ([nrej |-> 0,l |-> 44]),
    ([nrej |-> 0,l |-> 45]),
    ([nrej |-> 0,l |-> 46]),
    ([nrej |-> 0,l |-> 47]),
    ([nrej |-> 0,l |-> 48]),
    ([nrej |-> 0,l |-> 49]),
    ([nrej |-> 0,l |-> 50]),
    ([nrej |-> 0,l |-> 51]),
    ([nrej |-> 0,l |-> 52]),
    ([nrej |-> 0,l |-> 53]),
    ([nrej |-> 0,l |-> 54]),
    ([nrej |-> 0,l |-> 55]),
    ([nrej |-> 0,l |-> 56]),
    ([nrej |-> 0,l |-> 57]),
    ([nrej |-> 0,l |-> 58]),
    ([nrej |-> 0,l |-> 59]),
    ([nrej |-> 0,l |-> 60]),
    ([nrej |-> 0,l |-> 61]),
    ([nrej |-> 0,l |-> 62]),
    ([nrej |-> 0,l |-> 63]),
    ([nrej |-> 0,l |-> 64]),
    ([nrej |-> 0,l |-> 65]),
    ([nrej |-> 0,l |-> 66]),
    ([nrej |-> 0,l |-> 67]),
    ([nrej |-> 0,l |-> 68]),
    ([nrej |-> 0,l |-> 69]),
    ([nrej |-> 0,l |-> 70]),
    ([nrej |-> 0,l |-> 71]),
    ([nrej |-> 0,l |-> 72]),
    ([nrej |-> 0,l |-> 73]),
    ([nrej |-> 0,l |-> 74]),
    ([nrej |-> 0,l |-> 75]),
    ([nrej |-> 0,l |-> 76]),
    ([nrej |-> 0,l |-> 77]),
    ([nrej |-> 0,l |-> 78]),
    ([nrej |-> 0,l |-> 79]),
    ([nrej |-> 0,l |-> 80]),
    ([nrej |-> 0,l |-> 81]),
    ([nrej |-> 0,l |-> 82]),
    ([nrej |-> 0,l |-> 83]),
    ([nrej |-> 0,l |-> 84]),
    ([nrej |-> 0,l |-> 85]),
    ([nrej |-> 0,l |-> 86]),
    ([nrej |-> 0,l |-> 87]),
    ([nrej |-> 0,l |-> 88]),
    ([nrej |-> 0,l |-> 89]),
    ([nrej |-> 0,l |-> 90]),
    ([nrej |-> 0,l |-> 91]),
    ([nrej |-> 0,l |-> 92]),
    ([nrej |-> 0,l |-> 93]),
    ([nrej |-> 0,l |-> 94]),
    ([nrej |-> 0,l |-> 95]),
    ([nrej |-> 0,l |-> 96]),
    ([nrej |-> 0,l |-> 97]),
    ([nrej |-> 0,l |-> 98]),
    ([nrej |-> 0,l |-> 99]),
    ([nrej |-> 0,l |-> 100]),
    ([nrej |-> 0,l |-> 101]),
    ([nrej |-> 0,l |-> 102]),
    ([nrej |-> 0,l |-> 103]),
    ([nrej |-> 0,l |-> 104]),
    ([nrej |-> 0,l |-> 105]),
    ([nrej |-> 0,l |-> 106]),
    ([nrej |-> 0,l |-> 107]),
    ([nrej |-> 0,l |-> 108]),
    ([nrej |-> 0,l |-> 109]),
    ([nrej |-> 0,l |-> 110]),
    ([nrej |-> 0,l |-> 111]),
    ([nrej |-> 0,l |-> 112]),
    ([nrej |-> 0,l |-> 113]),
    ([nrej |-> 0,l |-> 114]),
    ([nrej |-> 0,l |-> 115]),
    ([nrej |-> 0,l |-> 116]),
    ([nrej |-> 0,l |-> 117]),
    ([nrej |-> 0,l |-> 118]),
    ([nrej |-> 0,l |-> 119]),
    ([nrej |-> 0,l |-> 120]),
    ([nrej |-> 0,l |-> 121]),
    ([nrej |-> 0,l |-> 122]),
    ([nrej |-> 0,l |-> 123]),
    ([nrej |-> 0,l |-> 124]),
    ([nrej |-> 0,l |-> 125]),
    ([nrej |-> 0,l |-> 126]),
    ([nrej |-> 0,l |-> 127]),
    ([nrej |-> 0,l |-> 128]),
    ([nrej |-> 0,l |-> 129]),
    ([nrej |-> 0,l |-> 130]),
    ([nrej |-> 0,l |-> 131]),
    ([nrej |-> 0,l |-> 132]),
    ([nrej |-> 0,l |-> 133]),
    ([nrej |-> 0,l |-> 134]),
    ([nrej |-> 0,l |-> 135]),
    ([nrej |-> 0,l |-> 136]),
    ([nrej |-> 0,l |-> 137]),
    ([nrej |-> 0,l |-> 138]),
    ([nrej |-> 0,l |-> 139]),
    ([nrej |-> 0,l |-> 140]),
    ([nrej |-> 0,l |-> 141]),
    ([nrej |-> 0,l |-> 142]),
    ([nrej |-> 0,l |-> 143]),
    ([nrej |-> 0,l |-> 144]),
    ([nrej |-> 0,l |-> 145]),
    ([nrej |-> 0,l |-> 146]),
    ([nrej |-> 0,l |-> 147]),
    ([nrej |-> 0,l |-> 148]),
    ([nrej |-> 0,l |-> 149]),
    ([nrej |-> 0,l |-> 150]),
    ([nrej |-> 0,l |-> 151]),
    ([nrej |-> 0,l |-> 152]),
    ([nrej |-> 0,l |-> 153]),
    ([nrej |-> 0,l |-> 154]),
    ([nrej |-> 0,l |-> 155]),
    ([nrej |-> 0,l |-> 156]),
    ([nrej |-> 0,l |-> 157]),
    ([nrej |-> 0,l |-> 158]),
    ([nrej |-> 0,l |-> 159]),
    ([nrej |-> 0,l |-> 160]),
    ([nrej |-> 0,l |-> 161]),
    ([nrej |-> 0,l |-> 162]),
    ([nrej |-> 0,l |-> 163]),
    ([nrej |-> 0,l |-> 164]),
    ([nrej |-> 0,l |-> 165]),
    ([nrej |-> 0,l |-> 166]),
    ([nrej |-> 0,l |-> 167]),
    ([nrej |-> 0,l |-> 168]),
    ([nrej |-> 0,l |-> 169]),
    ([nrej |-> 0,l |-> 170]),
    ([nrej |-> 0,l |-> 171]),
    ([nrej |-> 0,l |-> 172]),
    ([nrej |-> 0,l |-> 173]),
    ([nrej |-> 0,l |-> 174]),
    ([nrej |-> 0,l |-> 175]),
    ([nrej |-> 0,l |-> 176]),
    ([nrej |-> 0,l |-> 177]),
    ([nrej |-> 0,l |-> 178]),
    ([nrej |-> 0,l |-> 179]),
    ([nrej |-> 0,l |-> 180]),
    ([nrej |-> 0,l |-> 181]),
    ([nrej |-> 0,l |-> 182]),
    ([nrej |-> 0,l |-> 183]),
    ([nrej |-> 0,l |-> 184]),
    ([nrej |-> 0,l |-> 185]),
    ([nrej |-> 0,l |-> 186]),
    ([nrej |-> 0,l |-> 187]),
    ([nrej |-> 0,l |-> 188]),
    ([nrej |-> 0,l |-> 189]),
    ([nrej |-> 0,l |-> 190]),
    ([nrej |-> 0,l |-> 191]),
    ([nrej |-> 0,l |-> 192]),
    ([nrej |-> 0,l |-> 193]),
    ([nrej |-> 0,l |-> 194]),
    ([nrej |-> 0,l |-> 195]),
    ([nrej |-> 0,l |-> 196]),
    ([nrej |-> 0,l |-> 197]),
    ([nrej |-> 0,l |-> 198]),
    ([nrej |-> 0,l |-> 199]),
    ([nrej |-> 0,l |-> 200]),
    ([nrej |-> 0,l |-> 201]),
    ([nrej |-> 0,l |-> 202]),
    ([nrej |-> 0,l |-> 203]),
    ([nrej |-> 0,l |-> 204]),
    ([nrej |-> 0,l |-> 205]),
    ([nrej |-> 0,l |-> 206]),
    ([nrej |-> 0,l |-> 207]),
    ([nrej |-> 0,l |-> 208]),
    ([nrej |-> 0,l |-> 209]),
    ([nrej |-> 0,l |-> 210]),
    ([nrej |-> 0,l |-> 211]),
    ([nrej |-> 0,l |-> 212]),
    ([nrej |-> 0,l |-> 213]),
    ([nrej |-> 0,l |-> 214]),
    ([nrej |-> 0,l |-> 215]),
    ([nrej |-> 0,l |-> 216]),
    ([nrej |-> 0,l |-> 217]),
    ([nrej |-> 0,l |-> 218]),
    ([nrej |-> 0,l |-> 219]),
    ([nrej |-> 0,l |-> 220]),
    ([nrej |-> 0,l |-> 221]),
    ([nrej |-> 0,l |-> 222]),
    ([nrej |-> 0,l |-> 223]),
    ([nrej |-> 0,l |-> 224]),
    ([nrej |-> 0,l |-> 225]),
    ([nrej |-> 0,l |-> 226]),
    ([nrej |-> 0,l |-> 227])
    >>
----


=============================================================================

---- CONFIG MC_FPSelf_TTrace_1790471815 ----

INVARIANT
    _inv

CHECK_DEADLOCK
    \* CHECK_DEADLOCK off because of PROPERTY or INVARIANT above.
    FALSE

INIT
    _init

NEXT
    _next

CONSTANT
    _TETrace <- _trace

ALIAS
    _expression
=============================================================================
\* Generated on Sun Sep 27 01:16:57 UTC 2026