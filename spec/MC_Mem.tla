------------------------------- MODULE MC_Mem -------------------------------
(***************************************************************************)
(* Bounded machine for C08 / C09: a byte memory of three pages, the outer  *)
(* two inaccessible, one vector register, and the partial transfer         *)
(* operations executed under an *implementation strategy*:                 *)
(*   exact    - touches exactly the min(n,N) addressed elements            *)
(*   masked   - full-width access whose inactive bytes are fault-          *)
(*              suppressed (AVX-512 masked moves): footprint = active part *)
(*   window   - full-width read-modify-write of the whole vector window    *)
(*              (what _mm_maskmoveu_si128 may architecturally do, and what *)
(*              a widened load + blend + store does)                       *)
(* Ghost variables record the bytes read / written and whether the access  *)
(* faulted.  C08 and C09 are invariants of the machine; TLC shows that     *)
(* `exact` and `masked` satisfy both and that `window` violates C09 next   *)
(* to an inaccessible page (MC_Mem with Strategies = {"window"} is the     *)
(* design-level form of the known maskmovdqu finding).                     *)
(***************************************************************************)
EXTENDS Mem, FiniteSets, TLC

CONSTANTS PageBytes, N, w, Strategies
VARIABLES mem,      \* [0..3*PageBytes-1 -> 0..255]
          reg,      \* vector register image: Seq of N*w bytes
          rd, wr,   \* ghost: addresses read / written by the last operation
          sig,      \* ghost: "none" or "SEGV"
          depth,    \* number of operations so far (bounds the exploration)
          last      \* ghost: the last operation [op, p, n, s] and the memory before it
vars == <<mem, reg, rd, wr, sig, depth, last>>
View == <<mem, reg, rd, wr, sig, depth, last.op, last.p, last.n>>
MaxDepth == 2
MaxDepth2 == 2
MaxDepth3 == 3
Bounded == depth < MaxDepth

Addr == 0..(3 * PageBytes - 1)
Prot == {a \in Addr : a < PageBytes \/ a >= 2 * PageBytes}
VB == N * w
Pattern == [i \in 1..VB |-> 16 + i]                   \* recognisable lane bytes
MemInit == [a \in Addr |-> 100 + (a % 50)]

Init == /\ mem = MemInit /\ reg = Pattern /\ rd = {} /\ wr = {} /\ sig = "none" /\ depth = 0
        /\ last = [op |-> "init", p |-> 0, n |-> 0, s |-> "exact", before |-> MemInit]

Range(p, k) == {a \in Addr : a >= p /\ a < p + k}
\* addresses an access strategy touches for a transfer of k active bytes at p
Touched(s, p, k) == CASE s = "exact"  -> Range(p, k)
                      [] s = "masked" -> Range(p, k)
                      [] s = "window" -> IF k = 0 THEN {} ELSE Range(p, VB)

Load(p, n, s) ==
  LET k == Active(n, N) * w
      t == Touched(s, p, k)
      fault == t \cap Prot # {} \/ (s = "window" /\ k # 0 /\ p + VB > 3 * PageBytes)
  IN /\ rd' = t /\ wr' = {}
     /\ sig' = IF fault THEN "SEGV" ELSE "none"
     /\ reg' = IF fault THEN reg
               ELSE LoadResult([i \in 1..k |-> mem[p + i - 1]], n, N, w)
     /\ last' = [op |-> "load", p |-> p, n |-> n, s |-> s, before |-> mem]
     /\ UNCHANGED mem /\ depth' = depth + 1

Store(p, n, s) ==
  LET k == Active(n, N) * w
      t == Touched(s, p, k)
      fault == t \cap Prot # {} \/ (s = "window" /\ k # 0 /\ p + VB > 3 * PageBytes)
  IN /\ wr' = t /\ rd' = (IF s = "window" THEN t ELSE {})
     /\ sig' = IF fault THEN "SEGV" ELSE "none"
     /\ mem' = IF fault THEN mem
               ELSE [a \in Addr |-> IF a >= p /\ a < p + k THEN reg[a - p + 1] ELSE mem[a]]
     /\ last' = [op |-> "store", p |-> p, n |-> n, s |-> s, before |-> mem]
     /\ UNCHANGED reg /\ depth' = depth + 1

Refill == /\ reg' = [i \in 1..VB |-> (reg[i] * 3 + 7) % 251] /\ UNCHANGED <<mem, rd, wr, sig>> /\ depth' = depth + 1
          /\ last' = [op |-> "refill", p |-> 0, n |-> 0, s |-> "exact", before |-> mem]

\* a prefetch hint: any pointer at all (also inaccessible ones), any count
Prefetch(p, n) ==
  /\ rd' = {} /\ wr' = {} /\ sig' = "none" /\ UNCHANGED <<mem, reg>> /\ depth' = depth + 1
  /\ last' = [op |-> "prefetch", p |-> p, n |-> n, s |-> "exact", before |-> mem]

\* pointers anywhere in the middle page and at both boundaries
Ptrs == (PageBytes - 1)..(2 * PageBytes)
Next == \/ \E p \in Ptrs, n \in 0..(N + 2), s \in Strategies : Load(p, n, s) \/ Store(p, n, s)
        \/ \E p \in Addr, n \in {0, 1, PageBytes, 2 * PageBytes} : Prefetch(p, n)
        \/ Refill
Spec == Init /\ [][Next]_vars

Addressed == Range(last.p, Active(last.n, N) * w)

C08 == sig = "none" =>
         /\ last.op = "load" =>
              reg = [i \in 1..VB |-> IF i <= Active(last.n, N) * w THEN last.before[last.p + i - 1] ELSE 0]
         /\ last.op = "store" =>
              \A a \in Addr : mem[a] = (IF a \in Addressed THEN reg[a - last.p + 1] ELSE last.before[a])

C09 == last.op \in {"load", "store"} =>
         /\ rd \cup wr \subseteq Addressed                        \* nothing outside the addressed elements
         /\ (Addressed \cap Prot = {} => sig = "none")            \* hence no fault when exactly that is accessible
         /\ (last.n = 0 => rd \cup wr = {})

C20 == last.op = "prefetch" => mem = last.before /\ sig = "none" /\ rd \cup wr = {}
=============================================================================
