------------------------------- MODULE Denom -------------------------------
(***************************************************************************)
(* Denominator objects (C14 scalar, C15 vector).  Abstractly a denominator *)
(* *is* its divisor(s): a sequence of lanes (one lane for the scalar       *)
(* classes).  How the code represents it (magic multiplier, shifts) is     *)
(* deliberately not part of the abstract state: a different correct magic  *)
(* number must not raise an alarm.                                         *)
(***************************************************************************)
EXTENDS IntLane

\* lane l (1-based) of a flat byte image with w bytes per lane
LaneOf(x, l, w) == SubSeq(x, (l - 1) * w + 1, l * w)
NLanes(x, w) == Len(x) \div w
Replicate(lane, N) == [i \in 1..(N * Len(lane)) |-> lane[((i - 1) % Len(lane)) + 1]]
NonZeroLanes(d, w) == \A l \in 1..NLanes(d, w) : ~BNIsZero(LaneOf(d, l, w))

\* div(n, den): every lane gets the truncating quotient and remainder of that
\* lane's numerator by that lane's divisor (signed: except MIN / -1)
DenDivOK(k, w, d, n, q, r) ==
  /\ Len(n) = Len(d) /\ Len(q) = Len(d) /\ Len(r) = Len(d)
  /\ \A l \in 1..NLanes(d, w) :
        LET dl == LaneOf(d, l, w)  nl == LaneOf(n, l, w) IN
          DivDomain(k, nl, dl) => DivRel(k, nl, dl, LaneOf(q, l, w), LaneOf(r, l, w))
=============================================================================
