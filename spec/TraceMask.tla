----------------------------- MODULE TraceMask -----------------------------
(***************************************************************************)
(* Trace validation of mask *register programs*.  A driver keeps NR real   *)
(* Vector_mask objects alive and runs a long random program over them      *)
(* (results feed later operations); after every step it records all        *)
(* observers of the destination.  The specification keeps its own          *)
(* registers and computes every operand from its own state - not from the  *)
(* logged operands - so a representation that looks right through one      *)
(* accessor but is wrong through another (stale upper bits of a k-register *)
(* after !, seen by count or == but not by extract) diverges at the        *)
(* consumer.  A rejected step is reported and the destination is           *)
(* re-synchronised to the logged lanes, so the rest of the trace counts.   *)
(***************************************************************************)
EXTENDS Mask, TLC, Json, IOUtils

Tr == ndJsonDeserialize(IOEnv.TRACE)
NR == 4

VARIABLES l, nrej, n, R
vars == <<l, nrej, n, R>>

Init == l = 1 /\ nrej = 0 /\ n = 0 /\ R = [r \in 1..NR |-> <<>>]

Reject == PrintT(<<"REJECT", l>>) /\ nrej' = nrej + 1

\* {"e":"reset","n":N}: a new program on masks of N lanes begins
Reset(e) == n' = e.n /\ R' = [r \in 1..NR |-> <<>>] /\ UNCHANGED nrej

\* {"e":"op","o":...,"d":dst,"x":src,"y":src,...observers}
Op(e) ==
  LET x == IF e.x = 0 THEN <<>> ELSE R[e.x]
      y == IF e.y = 0 THEN <<>> ELSE R[e.y]
      m == MaskOp(e.o, x, y, e)
      ok == e.sig = "none" /\ e.n = n /\ ObserversAgree(e, m)
  IN /\ IF ok THEN UNCHANGED nrej ELSE Reject
     /\ R' = [R EXCEPT ![e.d] = IF ok THEN m ELSE Dec(e.lanes, e.n)]
     /\ UNCHANGED n

\* {"e":"cmp","o":"m_eq"|"m_ne","x":..,"y":..,"rb":0/1}: whole-mask comparison
CmpEv(e) ==
  LET ok == e.sig = "none" /\ (e.rb = 1) = ((R[e.x] = R[e.y]) = (e.o = "m_eq"))
  IN (IF ok THEN UNCHANGED nrej ELSE Reject) /\ UNCHANGED <<n, R>>

Consume == /\ l <= Len(Tr)
           /\ LET e == Tr[l] IN
                CASE e.e = "reset" -> Reset(e)
                  [] e.e = "op"    -> Op(e)
                  [] e.e = "cmp"   -> CmpEv(e)
                  [] OTHER -> Reject /\ UNCHANGED <<n, R>>
           /\ l' = l + 1

Done == /\ l = Len(Tr) + 1
        /\ PrintT(<<"DONE", Len(Tr), nrej>>)
        /\ l' = l + 1 /\ UNCHANGED <<nrej, n, R>>

Next == Consume \/ Done
Spec == Init /\ [][Next]_vars
=============================================================================
