------------------------------ MODULE MC_Mask ------------------------------
(***************************************************************************)
(* Bounded model of mask registers (C03).                                  *)
(*                                                                         *)
(* Abstract machine: two registers m1, m2 holding arrays of N booleans;    *)
(* every step applies one mask operation of Mask.tla.  Alongside it runs   *)
(* the *implementation-level* model of the k-register representation AVEL  *)
(* uses under AVX-512VL: an 8/16-bit integer whose bits above N are not    *)
(* part of the value.  The step relation of that model is written the way  *)
(* the code computes (kxor/knot on the whole register, then masking);      *)
(* RefinementOK says both machines always describe the same array, and     *)
(* that whole-register observers (count, ==, all) never see the unused     *)
(* bits.  Dropping the masking step in KNot breaks it - see MC_MaskBad.    *)
(***************************************************************************)
EXTENDS Mask, TLC

CONSTANTS N,          \* lanes
          KBits,      \* width of the k-register (>= N)
          MaskAfterNot \* TRUE: implementation masks after knot (as AVEL does)
VARIABLES m1, m2,     \* abstract registers
          k1, k2,     \* k-register images (integers 0 .. 2^KBits-1)
          op
vars == <<m1, m2, k1, k2, op>>
View == <<m1, m2, k1, k2>>

Full == 2 ^ N - 1
KAll == 2 ^ KBits - 1
KBit(k, i) == (k \div 2 ^ (i - 1)) % 2 = 1            \* lane i in 1..N
KDec(k) == [i \in 1..N |-> KBit(k, i)]
KEnc(m) == LET S == {i \in 1..N : m[i]} IN
           IF S = {} THEN 0 ELSE
           LET RECURSIVE Sum(_) Sum(T) == IF T = {} THEN 0 ELSE LET i == CHOOSE j \in T : TRUE IN 2 ^ (i - 1) + Sum(T \ {i})
           IN Sum(S)
RECURSIVE KPop(_)
KPop(k) == IF k = 0 THEN 0 ELSE (k % 2) + KPop(k \div 2)
\* bitwise connectives on small naturals
RECURSIVE KAndR(_, _, _)
KAndR(a, b, i) == IF i = 0 THEN 0 ELSE 2 * KAndR(a \div 2, b \div 2, i - 1) + (a % 2) * (b % 2)
KAnd(a, b) == KAndR(a, b, KBits)
KOr(a, b)  == a + b - KAnd(a, b)
KXor(a, b) == a + b - 2 * KAnd(a, b)
KNotImpl(a) == IF MaskAfterNot THEN KAnd(KAll - a, Full) ELSE KAll - a

Masks == [1..N -> BOOLEAN]

Init == /\ m1 = [i \in 1..N |-> FALSE] /\ m2 = [i \in 1..N |-> FALSE]
        /\ k1 = 0 /\ k2 = 0 /\ op = "init"

Bin(name, F(_, _), KF(_, _)) ==
   /\ m1' = F(m1, m2) /\ k1' = KF(k1, k2) /\ op' = name /\ UNCHANGED <<m2, k2>>
Not1 == m1' = MNot(m1) /\ k1' = KNotImpl(k1) /\ op' = "m_not" /\ UNCHANGED <<m2, k2>>
Ins(i, b) == /\ m1' = MIns(m1, i, b)
             /\ k1' = (IF b THEN KOr(k1, 2 ^ (i - 1)) ELSE KAnd(k1, KAll - 2 ^ (i - 1)))
             /\ op' = "m_insert" /\ UNCHANGED <<m2, k2>>
FromBool(b) == /\ m1' = MConst(N, b) /\ k1' = (IF b THEN Full ELSE 0)
               /\ op' = "m_from_bool" /\ UNCHANGED <<m2, k2>>
Swap == m1' = m2 /\ m2' = m1 /\ k1' = k2 /\ k2' = k1 /\ op' = "swap"

Next == \/ Bin("m_and", MAnd, KAnd) \/ Bin("m_or", MOr, KOr) \/ Bin("m_xor", MXor, KXor)
        \/ Not1 \/ Swap
        \/ \E i \in 1..N, b \in BOOLEAN : Ins(i, b)
        \/ \E b \in BOOLEAN : FromBool(b)
Spec == Init /\ [][Next]_vars

(* ------------------------------ C03 ----------------------------------- *)
TypeOK == m1 \in Masks /\ m2 \in Masks /\ k1 \in 0..KAll /\ k2 \in 0..KAll

\* lane-wise Boolean algebra and exact population
C03_Algebra ==
  /\ MAnd(m1, m2) = MAnd(m2, m1) /\ MOr(m1, m2) = MOr(m2, m1) /\ MXor(m1, m2) = MXor(m2, m1)
  /\ MNot(MNot(m1)) = m1
  /\ MNot(MAnd(m1, m2)) = MOr(MNot(m1), MNot(m2))
  /\ MXor(m1, m2) = MAnd(MOr(m1, m2), MNot(MAnd(m1, m2)))
  /\ MXor(m1, m1) = MConst(N, FALSE)
  /\ MCount(m1) + MCount(MNot(m1)) = N
  /\ MCount(MOr(m1, m2)) + MCount(MAnd(m1, m2)) = MCount(m1) + MCount(m2)
  /\ MAny(m1) = (MCount(m1) > 0) /\ MAll(m1) = (MCount(m1) = N) /\ MNone(m1) = (MCount(m1) = 0)
  /\ \A i \in 1..N, b \in BOOLEAN :
        LET r == MIns(m1, i, b) IN r[i] = b /\ \A j \in 1..N : j # i => r[j] = m1[j]
  /\ Dec(<<KEnc(m1) % 65536>>, N) = m1                \* trace encoding round-trips

\* the k-register image always denotes the abstract array, and whole-register
\* observers agree with lane-wise ones
RefinementOK ==
  /\ KDec(k1) = m1 /\ KDec(k2) = m2
  /\ KPop(k1) = MCount(m1)
  /\ (k1 = k2) = (m1 = m2)
  /\ (k1 = Full) = MAll(m1)
=============================================================================
