---- MODULE MC_Mem_TTrace_1790498757 ----
EXTENDS Sequences, TLCExt, Toolbox, Naturals, TLC, MC_Mem

_expression ==
    LET MC_Mem_TEExpression == INSTANCE MC_Mem_TEExpression
    IN MC_Mem_TEExpression!expression
----

_trace ==
    LET MC_Mem_TETrace == INSTANCE MC_Mem_TETrace
    IN MC_Mem_TETrace!trace
----

_inv ==
    ~(
        TLCGet("level") = Len(_TETrace)
        /\
        sig = ("SEGV")
        /\
        rd = ({7, 8, 9, 10})
        /\
        depth = (2)
        /\
        last = ([op |-> "load", p |-> 7, n |-> 1, s |-> "window", before |-> (0 :> 100 @@ 1 :> 101 @@ 2 :> 102 @@ 3 :> 103 @@ 4 :> 104 @@ 5 :> 105 @@ 6 :> 106 @@ 7 :> 107 @@ 8 :> 108 @@ 9 :> 109 @@ 10 :> 110 @@ 11 :> 111 @@ 12 :> 112 @@ 13 :> 113 @@ 14 :> 114 @@ 15 :> 115 @@ 16 :> 116 @@ 17 :> 117 @@ 18 :> 118 @@ 19 :> 119 @@ 20 :> 120 @@ 21 :> 121 @@ 22 :> 122 @@ 23 :> 123)])
        /\
        mem = ((0 :> 100 @@ 1 :> 101 @@ 2 :> 102 @@ 3 :> 103 @@ 4 :> 104 @@ 5 :> 105 @@ 6 :> 106 @@ 7 :> 107 @@ 8 :> 108 @@ 9 :> 109 @@ 10 :> 110 @@ 11 :> 111 @@ 12 :> 112 @@ 13 :> 113 @@ 14 :> 114 @@ 15 :> 115 @@ 16 :> 116 @@ 17 :> 117 @@ 18 :> 118 @@ 19 :> 119 @@ 20 :> 120 @@ 21 :> 121 @@ 22 :> 122 @@ 23 :> 123))
        /\
        reg = (<<17, 18, 19, 20>>)
        /\
        wr = ({})
    )
----

_init ==
    /\ sig = _TETrace[1].sig
    /\ reg = _TETrace[1].reg
    /\ rd = _TETrace[1].rd
    /\ last = _TETrace[1].last
    /\ wr = _TETrace[1].wr
    /\ mem = _TETrace[1].mem
    /\ depth = _TETrace[1].depth
----

_next ==
    /\ \E i,j \in DOMAIN _TETrace:
        /\ \/ /\ j = i + 1
              /\ i = TLCGet("level")
        /\ sig  = _TETrace[i].sig
        /\ sig' = _TETrace[j].sig
        /\ reg  = _TETrace[i].reg
        /\ reg' = _TETrace[j].reg
        /\ rd  = _TETrace[i].rd
        /\ rd' = _TETrace[j].rd
        /\ last  = _TETrace[i].last
        /\ last' = _TETrace[j].last
        /\ wr  = _TETrace[i].wr
        /\ wr' = _TETrace[j].wr
        /\ mem  = _TETrace[i].mem
        /\ mem' = _TETrace[j].mem
        /\ depth  = _TETrace[i].depth
        /\ depth' = _TETrace[j].depth

\* Uncomment the ASSUME below to write the states of the error trace
\* to the given file in Json format. Note that you can pass any tuple
\* to `JsonSerialize`. For example, a sub-sequence of _TETrace.
    \* ASSUME
    \*     LET J == INSTANCE Json
    \*         IN J!JsonSerialize("MC_Mem_TTrace_1790498757.json", _TETrace)

=============================================================================

 Note that you can extract this module `MC_Mem_TEExpression`
  to a dedicated file to reuse `expression` (the module in the 
  dedicated `MC_Mem_TEExpression.tla` file takes precedence 
  over the module `MC_Mem_TEExpression` below).

---- MODULE MC_Mem_TEExpression ----
EXTENDS Sequences, TLCExt, Toolbox, Naturals, TLC, MC_Mem

expression == 
    [
        \* To hide variables of the `MC_Mem` spec from the error trace,
        \* remove the variables below.  The trace will be written in the order
        \* of the fields of this record.
        sig |-> sig
        ,reg |-> reg
        ,rd |-> rd
        ,last |-> last
        ,wr |-> wr
        ,mem |-> mem
        ,depth |-> depth
        
        \* Put additional constant-, state-, and action-level expressions here:
        \* ,_stateNumber |-> _TEPosition
        \* ,_sigUnchanged |-> sig = sig'
        
        \* Format the `sig` variable as Json value.
        \* ,_sigJson |->
        \*     LET J == INSTANCE Json
        \*     IN J!ToJson(sig)
        
        \* Lastly, you may build expressions over arbitrary sets of states by
        \* leveraging the _TETrace operator.  For example, this is how to
        \* count the number of times a spec variable changed up to the current
        \* state in the trace.
        \* ,_sigModCount |->
        \*     LET F[s \in DOMAIN _TETrace] ==
        \*         IF s = 1 THEN 0
        \*         ELSE IF _TETrace[s].sig # _TETrace[s-1].sig
        \*             THEN 1 + F[s-1] ELSE F[s-1]
        \*     IN F[_TEPosition - 1]
    ]

=============================================================================



Parsing and semantic processing can take forever if the trace below is long.
 In this case, it is advised to uncomment the module below to deserialize the
 trace from a generated binary file.

\*
\*---- MODULE MC_Mem_TETrace ----
\*EXTENDS IOUtils, TLC, MC_Mem
\*
\*trace == IODeserialize("MC_Mem_TTrace_1790498757.bin", TRUE)
\*
\*=============================================================================
\*

---- MODULE MC_Mem_TETrace ----
EXTENDS TLC, MC_Mem

trace == 
    <<
    ([sig |-> "none",rd |-> {},depth |-> 0,last |-> [op |-> "init", p |-> 0, n |-> 0, s |-> "exact", before |-> (0 :> 100 @@ 1 :> 101 @@ 2 :> 102 @@ 3 :> 103 @@ 4 :> 104 @@ 5 :> 105 @@ 6 :> 106 @@ 7 :> 107 @@ 8 :> 108 @@ 9 :> 109 @@ 10 :> 110 @@ 11 :> 111 @@ 12 :> 112 @@ 13 :> 113 @@ 14 :> 114 @@ 15 :> 115 @@ 16 :> 116 @@ 17 :> 117 @@ 18 :> 118 @@ 19 :> 119 @@ 20 :> 120 @@ 21 :> 121 @@ 22 :> 122 @@ 23 :> 123)],mem |-> (0 :> 100 @@ 1 :> 101 @@ 2 :> 102 @@ 3 :> 103 @@ 4 :> 104 @@ 5 :> 105 @@ 6 :> 106 @@ 7 :> 107 @@ 8 :> 108 @@ 9 :> 109 @@ 10 :> 110 @@ 11 :> 111 @@ 12 :> 112 @@ 13 :> 113 @@ 14 :> 114 @@ 15 :> 115 @@ 16 :> 116 @@ 17 :> 117 @@ 18 :> 118 @@ 19 :> 119 @@ 20 :> 120 @@ 21 :> 121 @@ 22 :> 122 @@ 23 :> 123),reg |-> <<17, 18, 19, 20>>,wr |-> {}]),
    ([sig |-> "none",rd |-> {},depth |-> 1,last |-> [op |-> "store", p |-> 7, n |-> 0, s |-> "window", before |-> (0 :> 100 @@ 1 :> 101 @@ 2 :> 102 @@ 3 :> 103 @@ 4 :> 104 @@ 5 :> 105 @@ 6 :> 106 @@ 7 :> 107 @@ 8 :> 108 @@ 9 :> 109 @@ 10 :> 110 @@ 11 :> 111 @@ 12 :> 112 @@ 13 :> 113 @@ 14 :> 114 @@ 15 :> 115 @@ 16 :> 116 @@ 17 :> 117 @@ 18 :> 118 @@ 19 :> 119 @@ 20 :> 120 @@ 21 :> 121 @@ 22 :> 122 @@ 23 :> 123)],mem |-> (0 :> 100 @@ 1 :> 101 @@ 2 :> 102 @@ 3 :> 103 @@ 4 :> 104 @@ 5 :> 105 @@ 6 :> 106 @@ 7 :> 107 @@ 8 :> 108 @@ 9 :> 109 @@ 10 :> 110 @@ 11 :> 111 @@ 12 :> 112 @@ 13 :> 113 @@ 14 :> 114 @@ 15 :> 115 @@ 16 :> 116 @@ 17 :> 117 @@ 18 :> 118 @@ 19 :> 119 @@ 20 :> 120 @@ 21 :> 121 @@ 22 :> 122 @@ 23 :> 123),reg |-> <<17, 18, 19, 20>>,wr |-> {}]),
    ([sig |-> "SEGV",rd |-> {7, 8, 9, 10},depth |-> 2,last |-> [op |-> "load", p |-> 7, n |-> 1, s |-> "window", before |-> (0 :> 100 @@ 1 :> 101 @@ 2 :> 102 @@ 3 :> 103 @@ 4 :> 104 @@ 5 :> 105 @@ 6 :> 106 @@ 7 :> 107 @@ 8 :> 108 @@ 9 :> 109 @@ 10 :> 110 @@ 11 :> 111 @@ 12 :> 112 @@ 13 :> 113 @@ 14 :> 114 @@ 15 :> 115 @@ 16 :> 116 @@ 17 :> 117 @@ 18 :> 118 @@ 19 :> 119 @@ 20 :> 120 @@ 21 :> 121 @@ 22 :> 122 @@ 23 :> 123)],mem |-> (0 :> 100 @@ 1 :> 101 @@ 2 :> 102 @@ 3 :> 103 @@ 4 :> 104 @@ 5 :> 105 @@ 6 :> 106 @@ 7 :> 107 @@ 8 :> 108 @@ 9 :> 109 @@ 10 :> 110 @@ 11 :> 111 @@ 12 :> 112 @@ 13 :> 113 @@ 14 :> 114 @@ 15 :> 115 @@ 16 :> 116 @@ 17 :> 117 @@ 18 :> 118 @@ 19 :> 119 @@ 20 :> 120 @@ 21 :> 121 @@ 22 :> 122 @@ 23 :> 123),reg |-> <<17, 18, 19, 20>>,wr |-> {}])
    >>
----


=============================================================================

---- CONFIG MC_Mem_TTrace_1790498757 ----
CONSTANTS
    PageBytes = 8
    N = 4
    w = 1
    Strategies = { "window" }
    MaxDepth <- MaxDepth2

INVARIANT
    _inv

CHECK_DEADLOCK
    \* CHECK_DEADLOCK off because of PROPERTY or INVARIANT above.
    FALSE

INIT
    _init

NEXT
    _next

CONSTANT
    _TETrace <- _trace

ALIAS
    _expression
=============================================================================
\* Generated on Sun Sep 27 08:45:59 UTC 2026