SPECIFICATION Spec
CONSTANTS N = 2
  W = 1
  Kind = "u"
  LaneDom = {0, 1, 255}
  VRegs = {"v0", "v1"}
  KRegs = {"k0", "k1"}
  MemSize = 2
  MaxDepth = 4
INVARIANTS TypeOK Frame EnvOnlyBySetEnv MaskIsBooleans
VIEW View
CONSTRAINT Bounded
CHECK_DEADLOCK FALSE
