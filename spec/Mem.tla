-------------------------------- MODULE Mem --------------------------------
(***************************************************************************)
(* Loads, stores, gathers, scatters and lane access (C08) and their memory *)
(* footprint (C09).  Memory is bytes; a vector of N lanes of w bytes is    *)
(* its N*w-byte little-endian image (what store / to_array produce).       *)
(*                                                                         *)
(* Constant-level operators only: they are used by the bounded machine     *)
(* MC_Mem.tla and by trace validation (TraceFacts.tla, events with k="v"). *)
(***************************************************************************)
EXTENDS Integers, Sequences

MinI(a, b) == IF a < b THEN a ELSE b
ZeroBytes(k) == [i \in 1..k |-> 0]
Prefix(s, k) == SubSeq(s, 1, k)
\* lanes actually addressed by a count n on a vector of N lanes
Active(n, N) == MinI(n, N)

\* load / aligned_load (run-time or compile-time count): first min(n,N) lanes
\* from memory in order, remaining lanes zero.  src = the bytes at p.
LoadResult(src, n, N, w) ==
  LET k == Active(n, N) * w IN Prefix(src, k) \o ZeroBytes(N * w - k)

\* store / aligned_store: memory window `before` (starting at p - lead) becomes
StoreResult(before, lead, v, n, N, w) ==
  LET k == Active(n, N) * w IN
    [i \in 1..Len(before) |-> IF i > lead /\ i <= lead + k THEN v[i - lead] ELSE before[i]]

\* gather: arena bytes `mem`, p = element index `base` (0-based) in the arena,
\* idx = indices of the active lanes (signed)
LaneAt(mem, e, w) == SubSeq(mem, e * w + 1, e * w + w)
RECURSIVE GatherLanes(_, _, _, _, _)
GatherLanes(mem, base, idx, i, w) ==
  IF i > Len(idx) THEN <<>>
  ELSE LaneAt(mem, base + idx[i], w) \o GatherLanes(mem, base, idx, i + 1, w)
GatherResult(mem, base, idx, N, w) ==
  LET g == GatherLanes(mem, base, idx, 1, w) IN g \o ZeroBytes(N * w - Len(g))

\* scatter: active lane i of v goes to element base+idx[i]; nothing else changes.
\* (Drivers use pairwise distinct active indices; with duplicates either value
\* could legitimately win and the relation below would be too strict.)
ScatterResult(mem, base, idx, v, w) ==
  [b \in 1..Len(mem) |->
     LET el == (b - 1) \div w
         hit == {i \in 1..Len(idx) : base + idx[i] = el}
     IN IF hit = {} THEN mem[b]
        ELSE LET i == CHOOSE j \in hit : TRUE IN v[(i - 1) * w + ((b - 1) % w) + 1]]

ExtractResult(v, I, w) == SubSeq(v, I * w + 1, I * w + w)              \* I 0-based
InsertResult(v, I, x, w) ==
  [b \in 1..Len(v) |-> IF (b - 1) \div w = I THEN x[((b - 1) % w) + 1] ELSE v[b]]

(***************************************************************************)
(* Event judgement.  mode = "values" (C08) or "footprint" (C09).           *)
(*                                                                         *)
(* Fields: o, N, w, n; sig; place (mid / end / start / prot);              *)
(*   load:    src = the min(n,N)*w readable bytes at p, r = result image   *)
(*   store:   v, lead, before, after = window around p (sentinels incl.)   *)
(*   gather:  mem, base, idx (active lanes only), r                        *)
(*   scatter: mem, base, idx, v, after                                     *)
(*   extract / insert / roundtrip                                          *)
(* C09: the call must not fault when exactly the addressed range is        *)
(* accessible (the driver guarantees that by construction: everything      *)
(* outside the range that can be made inaccessible is), and bytes outside  *)
(* the range are not written.  C08: when the call returns, values are      *)
(* exactly as specified.  A faulting call is a C09 matter only.            *)
(***************************************************************************)
SameOutside(before, after, lead, k) ==
  \A i \in 1..Len(before) : (i <= lead \/ i > lead + k) => after[i] = before[i]

MemFactOK(e, mode) ==
  LET N == e.N  w == e.w IN
  IF mode = "footprint" THEN
    /\ e.sig = "none"
    \* byte-exact read footprint where memcheck observed the call: no access outside the addressed elements
    /\ ("vgerr" \in DOMAIN e => e.vgerr = 0)
    \* byte-exact read AND write footprint in every configuration: hardware watchpoints on the bytes adjacent to
    \* the addressed elements (load / store) or on elements no active lane addresses (gather / scatter) saw no access
    /\ ("hw" \in DOMAIN e => e.hw = 0)
    /\ CASE e.o = "store"   -> SameOutside(e.before, e.after, e.lead, Active(e.n, N) * w)
         [] e.o = "scatter" -> \A b \in 1..Len(e.mem) :
                                  (\A i \in 1..Len(e.idx) : e.base + e.idx[i] # (b - 1) \div w)
                                     => e.after[b] = e.mem[b]
         [] OTHER -> TRUE
  ELSE
    e.sig # "none" \/
    CASE e.o = "load"    -> e.r = LoadResult(e.src \o ZeroBytes(N * w), e.n, N, w)
      [] e.o = "store"   -> e.after = StoreResult(e.before, e.lead, e.v, e.n, N, w)
      [] e.o = "gather"  -> e.r = GatherResult(e.mem, e.base, e.idx, N, w)
      [] e.o = "scatter" -> e.after = ScatterResult(e.mem, e.base, e.idx, e.v, w)
      [] e.o = "extract" -> e.r = ExtractResult(e.v, e.I, w)
      [] e.o = "insert"  -> e.r = InsertResult(e.v, e.I, e.x, w)
      [] e.o = "roundtrip" -> e.r = e.v
      [] OTHER -> FALSE

(***************************************************************************)
(* Prefetch hints (C20): for every pointer and count the call returns      *)
(* without a signal and memory is unchanged; a hint performs no            *)
(* architectural access at all.                                            *)
(***************************************************************************)
PrefetchFactOK(e) == e.sig = "none" /\ e.memchanged = 0
=============================================================================
