---------------------------- MODULE MC_IntLane ----------------------------
(***************************************************************************)
(* Bounded check that the operational lane semantics of IntLane.tla (byte  *)
(* limbs, the form that also runs on 32/64-bit data) satisfies the         *)
(* declarative statements of properties C01, C02, C04, C05, C06, C07, C17  *)
(* written on TLC's own integers.  L = 1: every pair of 8-bit values;      *)
(* L = 2: a boundary lattice of 16-bit values.                             *)
(*                                                                         *)
(* The machine has two lane registers x, y of kind k; every step applies   *)
(* one operation.  Invariants compare both forms in every reachable state. *)
(***************************************************************************)
EXTENDS IntLane, FiniteSets, TLC

CONSTANTS L,        \* bytes per lane (1 or 2)
          Dom       \* set of naturals < 2^(8L): initial / reload values
VARIABLES x, y, k, op
vars == <<x, y, k, op>>
View == <<x, y, k>>          \* op is an observation ghost: hidden from fingerprints

Dom8  == 0..255
Lat8  == {0, 1, 2, 3, 7, 8, 15, 16, 63, 64, 100, 126, 127, 128, 129, 130, 200, 253, 254, 255}
Lat16 == {0, 1, 2, 3, 127, 128, 129, 255, 256, 257, 511, 4095, 4096, 16383, 16384, 21845,
          32766, 32767, 32768, 32769, 32770, 43690, 49152, 65024, 65279, 65280, 65281,
          65533, 65534, 65535}
Lat16q == {0, 1, 2, 255, 256, 257, 4095, 21845, 32767, 32768, 32769, 43690, 65280, 65534, 65535}
W  == 8 * L
TW == 2 ^ W
HW == 2 ^ (W - 1)
U(a) == ToNat(a)
S(a) == IF U(a) >= HW THEN U(a) - TW ELSE U(a)
Val(kk, a) == IF kk = "i" THEN S(a) ELSE U(a)
Enc(v) == FromNatL(v % TW, L)
Lane(n) == FromNatL(n, L)
Amt(s) == FromNatL(s, L)
NBit(n, i) == (n \div 2 ^ i) % 2
Pows == {2 ^ i : i \in 0..(W - 1)}
TruncDiv2(v) == IF v >= 0 THEN v \div 2 ELSE -((-v) \div 2)
AbsI(v) == IF v < 0 THEN -v ELSE v

DMin == CHOOSE n \in Dom : \A m \in Dom : n <= m
Succ(n) == IF \E m \in Dom : m > n
             THEN CHOOSE m \in Dom : m > n /\ \A p \in Dom : p > n => m <= p
             ELSE DMin
Load == \/ x' = Lane(Succ(U(x))) /\ op' = "load" /\ UNCHANGED <<y, k>>
        \/ y' = Lane(Succ(U(y))) /\ op' = "load" /\ UNCHANGED <<x, k>>
        \/ k' = (IF k = "u" THEN "i" ELSE "u") /\ op' = "load" /\ UNCHANGED <<x, y>>
\* one initial state; operands are (re)loaded by an action so that TLC's workers
\* share the evaluation of the invariants
Init == x = Lane(DMin) /\ y = Lane(DMin) /\ k = "u" /\ op = "init"
Next == \/ Load
        \/ \E o \in BinOps : x' = IntBin(o, k, x, y) /\ op' = o /\ UNCHANGED <<y, k>>
        \/ \E o \in UnOps : IntUnDomain(o, k, x) /\ x' = IntUn(o, k, x) /\ op' = o /\ UNCHANGED <<y, k>>
        \/ \E o \in ShiftOps, s \in 0..W : x' = IntShift(o, k, x, Amt(s)) /\ op' = o /\ UNCHANGED <<y, k>>
        \/ x' = y /\ y' = x /\ op' = "swap" /\ UNCHANGED k
Spec == Init /\ [][Next]_vars

TypeOK == IsByteSeq(x, L) /\ IsByteSeq(y, L)
\* state constraint: successors outside the lattice are generated but not expanded
InDom == U(x) \in Dom /\ U(y) \in Dom

(* ------------------------------ C01 ----------------------------------- *)
C01 == /\ Add(x, y) = Enc(Val(k, x) + Val(k, y))
       /\ Sub(x, y) = Enc(Val(k, x) - Val(k, y))
       /\ Mul(x, y) = Enc(S(x) * S(y))             \* |S|^2 <= 2^30 fits; same residue as U*U
       /\ Neg(x) = Enc(-Val(k, x))
       /\ IncL(x) = Enc(Val(k, x) + 1) /\ DecL(x) = Enc(Val(k, x) - 1)
       /\ Sub(Add(x, y), y) = x

(* ------------------------------ C02 ----------------------------------- *)
C02 == /\ CmpOp("lt", k, x, y) = (Val(k, x) < Val(k, y))
       /\ CmpOp("le", k, x, y) = (Val(k, x) <= Val(k, y))
       /\ CmpOp("gt", k, x, y) = (Val(k, x) > Val(k, y))
       /\ CmpOp("ge", k, x, y) = (Val(k, x) >= Val(k, y))
       /\ CmpOp("eq", k, x, y) = (Val(k, x) = Val(k, y))
       /\ CmpOp("ne", k, x, y) = (Val(k, x) # Val(k, y))
       \* trichotomy, and signed/unsigned orders differ exactly when the top bits differ
       /\ Cardinality({o \in {"lt", "eq", "gt"} : CmpOp(o, k, x, y)}) = 1
       /\ (CmpOp("lt", "u", x, y) # CmpOp("lt", "i", x, y)) <=> (SignBit(x) # SignBit(y))

(* ------------------------------ C04 ----------------------------------- *)
C04 == /\ \A i \in 0..(W - 1) :
            /\ Bit(AndW(x, y), i) = NBit(U(x), i) * NBit(U(y), i)
            /\ Bit(OrW(x, y), i) = (IF NBit(U(x), i) + NBit(U(y), i) > 0 THEN 1 ELSE 0)
            /\ Bit(XorW(x, y), i) = (NBit(U(x), i) + NBit(U(y), i)) % 2
            /\ Bit(NotW(x), i) = 1 - NBit(U(x), i)
       /\ \A s \in 0..W :
            /\ Shl(x, Amt(s)) = (IF s = W THEN Zeros(L) ELSE Enc((U(x) % 2 ^ (W - s)) * 2 ^ s))
            /\ Shr("u", x, Amt(s)) = Enc(U(x) \div 2 ^ s)
            /\ Shr("i", x, Amt(s)) = Enc(S(x) \div 2 ^ s)          \* floor: sign fill
            /\ Rotl(x, Amt(s)) = Rotr(x, Amt((W - s) % W))
            /\ Rotr(Rotl(x, Amt(s)), Amt(s)) = x
            /\ PopCount(Rotl(x, Amt(s))) = PopCount(x)
            /\ s < W => Rotl(x, Amt(s)) = OrW(Shl(x, Amt(s)), Shr("u", x, Amt(W - s)))
       \* any amount rotates by its residue (here: amounts up to 255 in one byte,
       \* and a negative long long as its two's complement)
       /\ \A s \in {W, W + 1, 2 * W + 3, 255} : Rotl(x, <<s>>) = Rotl(x, Amt(s % W))
       /\ Rotl(x, <<255, 255, 255, 255, 255, 255, 255, 255>>) = Rotr(x, Amt(1))

(* ------------------------------ C05 ----------------------------------- *)
CQuot(a, b) == IF (a < 0) = (b < 0) THEN AbsI(a) \div AbsI(b) ELSE -(AbsI(a) \div AbsI(b))
C05 == DivDomain(k, x, y) =>
         LET a == Val(k, x)  b == Val(k, y)  qc == CQuot(a, b)  rc == a - qc * b IN
           DivRel(k, x, y, Enc(qc), Enc(rc))
\* the relation has no other solution (given q, the exact equation fixes r)
C05u == DivDomain(k, x, y) =>
          \A qn \in 0..(TW - 1) :
             LET q == Lane(qn) IN
               DivRel(k, x, y, q, Sub(x, Mul(q, y))) => q = Enc(CQuot(Val(k, x), Val(k, y)))

(* ------------------------------ C06 ----------------------------------- *)
NatBitWidth(n) == CHOOSE w \in 0..W : n < 2 ^ w /\ (w = 0 \/ n >= 2 ^ (w - 1))
C06 == LET n == U(x) IN
       /\ PopCount(x) = Cardinality({i \in 0..(W - 1) : NBit(n, i) = 1})
       /\ Clz(x) = W - NatBitWidth(n)
       /\ Clo(x) = Clz(NotW(x))
       /\ Ctz(x) = (IF n = 0 THEN W ELSE CHOOSE c \in 0..(W - 1) : n % 2 ^ c = 0 /\ NBit(n, c) = 1)
       /\ Cto(x) = Ctz(NotW(x))
       /\ BitWidth(x) = NatBitWidth(n)
       /\ BitFloor(x) = (IF n = 0 THEN Zeros(L) ELSE Enc(CHOOSE p \in Pows : p <= n /\ 2 * p > n))
       /\ BitCeil(x) = (IF n <= 1 THEN Lane(1)
                        ELSE IF n > HW THEN Zeros(L)
                        ELSE Enc(CHOOSE p \in Pows : p >= n /\ p < 2 * n))
       /\ HasSingleBit(x) = (n \in Pows)
       /\ ByteSwap(ByteSwap(x)) = x
       /\ (L = 2 => U(ByteSwap(x)) = (n % 256) * 256 + n \div 256)
       /\ (L = 1 => ByteSwap(x) = x)
       /\ CountlSign(x) = (IF SignBit(x) = 1 THEN Clo(x) ELSE Clz(x)) - 1

(* ------------------------------ C07 ----------------------------------- *)
C07 == LET a == Val(k, x)  b == Val(k, y) IN
       /\ MinK(k, x, y) = Enc(IF a < b THEN a ELSE b)
       /\ MaxK(k, x, y) = Enc(IF a < b THEN b ELSE a)
       /\ Abs(k, x) = Enc(AbsI(a))
       /\ NegAbs(k, x) = Enc(-AbsI(S(x)))     \* on the signed reading, see IntLane
       /\ Negate(TRUE, x) = Enc(-a) /\ Negate(FALSE, x) = x
       /\ Average(k, x, y) = Enc(TruncDiv2(a + b))
       /\ Midpoint(k, x, y) = Enc(a + TruncDiv2(b - a))
       /\ Blend(TRUE, x, y) = x /\ Blend(FALSE, x, y) = y
       /\ Keep(TRUE, x) = x /\ Keep(FALSE, x) = Zeros(L)
       /\ Clear(TRUE, x) = Zeros(L) /\ Clear(FALSE, x) = x
       /\ SetBits(TRUE, L) = Enc(-1) /\ SetBits(FALSE, L) = Enc(0)
       \* clamp with lo < hi: the middle one of the three
       /\ \A zn \in Dom : LET z == Lane(zn) c == Val(k, z) IN
            ClampDomain(k, x, y) =>
              Clamp(k, z, x, y) = Enc(IF c < a THEN a ELSE IF c > b THEN b ELSE c)

(* ------------------------------ C16 ----------------------------------- *)
\* mixed-sign comparisons are comparisons of the mathematical values
C16 == \A ka \in {"u", "i"}, kb \in {"u", "i"} :
          LET a == Val(ka, x)  b == Val(kb, y) IN
          /\ MixCmpOp("cmp_less", ka, x, kb, y) = (a < b)
          /\ MixCmpOp("cmp_less_equal", ka, x, kb, y) = (a <= b)
          /\ MixCmpOp("cmp_greater", ka, x, kb, y) = (a > b)
          /\ MixCmpOp("cmp_greater_equal", ka, x, kb, y) = (a >= b)
          /\ MixCmpOp("cmp_equal", ka, x, kb, y) = (a = b)
          /\ MixCmpOp("cmp_not_equal", ka, x, kb, y) = (a # b)

(* ------------------------------ C17 ----------------------------------- *)
C17 == /\ Conv(k, x, L) = x
       /\ Conv(k, x, L + 1) = FromNatL(Val(k, x) % (256 * TW), L + 1)   \* static_cast widening
       /\ (L = 2 => Conv(k, x, 1) = FromNatL(U(x) % 256, 1))            \* narrowing
=============================================================================
