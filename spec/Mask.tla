------------------------------- MODULE Mask -------------------------------
(***************************************************************************)
(* Vector_mask<T,N> as an array of N booleans (property C03), whatever the *)
(* representation (k-register bit mask, full-width lane mask, bool).       *)
(*                                                                         *)
(* In traces a mask of N lanes is a list of 16-bit words, lane i (0-based) *)
(* being bit (i % 16) of word (i \div 16); Dec turns it into Seq(BOOLEAN). *)
(***************************************************************************)
EXTENDS Integers, Sequences, FiniteSets

P16 == <<1, 2, 4, 8, 16, 32, 64, 128, 256, 512, 1024, 2048, 4096, 8192, 16384, 32768>>
\* lane i in 1..n of the word list ws
Dec(ws, n) == [i \in 1..n |-> (ws[((i - 1) \div 16) + 1] \div P16[((i - 1) % 16) + 1]) % 2 = 1]

MNot(x)    == [i \in DOMAIN x |-> ~x[i]]
MAnd(x, y) == [i \in DOMAIN x |-> x[i] /\ y[i]]
MOr(x, y)  == [i \in DOMAIN x |-> x[i] \/ y[i]]
MXor(x, y) == [i \in DOMAIN x |-> x[i] # y[i]]
MIns(x, i, b) == [x EXCEPT ![i] = b]                  \* i in 1..N
MConst(n, b)  == [i \in 1..n |-> b]
MCount(x) == Cardinality({i \in DOMAIN x : x[i]})
MAny(x)  == \E i \in DOMAIN x : x[i]
MAll(x)  == \A i \in DOMAIN x : x[i]
MNone(x) == ~MAny(x)

MaskUnOps  == {"m_not"}
MaskBinOps == {"m_and", "m_or", "m_xor", "m_land", "m_lor"}

\* result of a mask-valued operation; e carries the non-mask arguments
MaskOp(op, x, y, e) ==
  CASE op = "m_not"  -> MNot(x)
    [] op = "m_and"  -> MAnd(x, y)
    [] op = "m_land" -> MAnd(x, y)
    [] op = "m_or"   -> MOr(x, y)
    [] op = "m_lor"  -> MOr(x, y)
    [] op = "m_xor"  -> MXor(x, y)
    [] op = "m_id"   -> x                              \* copy, conversion between mask types
    [] op = "m_insert"     -> MIns(x, e.i + 1, e.bv = 1)
    [] op = "m_from_bool"  -> MConst(e.n, e.bv = 1)
    [] op = "m_from_array" -> Dec(e.arg, e.n)

\* Every observer of a mask must describe one and the same array of booleans.
\*   lanes  extract<I> for every I             tv1/tv0  lanes of Vector(mask) equal to 1 / 0
\*   sb1/sb0  lanes of set_bits(mask) all-ones / zero    count any all none   eqself  m == m
ObserversAgree(e, m) ==
  LET n == e.n IN
  /\ Dec(e.lanes, n) = m
  /\ Dec(e.tv1, n) = m /\ Dec(e.tv0, n) = MNot(m)
  /\ ("sb1" \in DOMAIN e => Dec(e.sb1, n) = m /\ Dec(e.sb0, n) = MNot(m))   \* integer masks only
  /\ e.count = MCount(m)
  /\ (e.any = 1) = MAny(m) /\ (e.all = 1) = MAll(m) /\ (e.none = 1) = MNone(m)
  /\ e.eqself = 1 /\ e.neself = 0

\* A mask fact with immediate operands a, b (word lists).
MaskFactOK(e) ==
  /\ e.sig = "none"
  /\ CASE e.o \in {"m_eq", "m_ne"} ->
             (e.rb = 1) = ((Dec(e.a, e.n) = Dec(e.b, e.n)) = (e.o = "m_eq"))
       [] e.o \in {"m_from_bool", "m_from_array"} ->
             ObserversAgree(e, MaskOp(e.o, <<>>, <<>>, e))
       [] e.o \in MaskUnOps \cup {"m_id", "m_insert"} ->
             ObserversAgree(e, MaskOp(e.o, Dec(e.a, e.n), <<>>, e))
       [] e.o \in MaskBinOps ->
             ObserversAgree(e, MaskOp(e.o, Dec(e.a, e.n), Dec(e.b, e.n), e))
       \* count / any / all / none applied to a *vector*: they count its non-zero lanes
       \* (e.a = the non-zero pattern of the operand, lane != 0)
       [] e.o = "v_obs" ->
             LET m == Dec(e.a, e.n) IN
             /\ e.count = MCount(m)
             /\ (e.any = 1) = MAny(m) /\ (e.all = 1) = MAll(m) /\ (e.none = 1) = MNone(m)
       [] OTHER -> FALSE
=============================================================================
