------------------------------- MODULE Config -------------------------------
(***************************************************************************)
(* Build configurations (C19): the feature macros, the documented          *)
(* implication relation (docs/Capabilities.md) and what follows from a     *)
(* closed macro set: which Vector<T,N> exist, the natural / maximum width  *)
(* aliases.  Element types are named "8u" .. "64f".                        *)
(***************************************************************************)
EXTENDS Naturals, FiniteSets, Sequences

X86Macros == {"AVX10_2", "AVX10_1", "GFNI", "AVX512BITALG", "AVX512VBMI2", "AVX512VBMI", "AVX512VPOPCNTDQ",
              "AVX512BW", "AVX512VL", "AVX512DQ", "AVX512CD", "AVX512F", "FMA", "AVX2", "AVX", "SSE4_2",
              "SSE4_1", "SSSE3", "SSE3", "SSE2", "BMI2", "BMI", "PREFETCH", "LZCNT", "POPCNT", "X86"}

\* docs/Capabilities.md, "implies" bullets (direct implications)
DocImplies ==
  [m \in X86Macros |->
     CASE m = "AVX10_2" -> {"AVX10_1"}
       [] m = "AVX10_1" -> {"AVX2"}
       [] m \in {"GFNI", "AVX512BITALG", "AVX512VBMI2", "AVX512VBMI", "AVX512VPOPCNTDQ",
                 "AVX512BW", "AVX512VL", "AVX512DQ", "AVX512CD"} -> {"AVX512F"}
       [] m = "AVX512F" -> {"AVX2", "FMA"}
       [] m = "FMA"     -> {"AVX"}
       [] m = "AVX2"    -> {"AVX"}
       [] m = "AVX"     -> {"SSE4_2"}
       [] m = "SSE4_2"  -> {"SSE4_1"}
       [] m = "SSE4_1"  -> {"SSSE3", "POPCNT"}
       [] m = "SSSE3"   -> {"SSE3"}
       [] m = "SSE3"    -> {"SSE2"}
       [] m = "SSE2"    -> {"X86"}
       [] m = "BMI2"    -> {"BMI"}
       [] m \in {"BMI", "PREFETCH", "LZCNT", "POPCNT"} -> {"X86"}
       [] OTHER -> {}]

Step(S) == S \cup UNION {DocImplies[m] : m \in S \cap X86Macros}
RECURSIVE Closure(_)
Closure(S) == IF Step(S) = S THEN S ELSE Closure(Step(S))

ElemTypes == {"8u", "8i", "16u", "16i", "32u", "32i", "64u", "64i", "32f", "64f"}
ElemBits(t) == IF t \in {"8u", "8i"} THEN 8 ELSE IF t \in {"16u", "16i"} THEN 16
               ELSE IF t \in {"32u", "32i", "32f"} THEN 32 ELSE 64

\* register widths (bits) available to element type t under the closed set C:
\* 128-bit with SSE2, 256-bit with AVX2, 512-bit 32/64-bit lanes with AVX-512F
\* and 8/16-bit lanes with AVX-512BW; width-1 vectors always exist
RegBits(C, t) ==
  (IF "SSE2" \in C THEN {128} ELSE {}) \cup (IF "AVX2" \in C THEN {256} ELSE {})
  \cup (IF "AVX512F" \in C /\ (ElemBits(t) >= 32 \/ "AVX512BW" \in C) THEN {512} ELSE {})
Widths(C, t) == {1} \cup {b \div ElemBits(t) : b \in RegBits(C, t)}
TypesOf(C) == {p \in ElemTypes \X {1, 2, 4, 8, 16, 32, 64} : p[2] \in Widths(C, p[1])}
MaxOf(S) == CHOOSE x \in S : \A y \in S : y <= x
MaxWidth(C, t) == MaxOf(Widths(C, t))

(***************************************************************************)
(* Judgement of a probe event (k = "c").  The probe translation unit is    *)
(* compiled with the named macros (or AVEL_AUTO_DETECT and the matching    *)
(* compiler flags) and reports what it observes:                           *)
(*   compiled     1 if <avel/Avel.hpp> + <avel/Aligned_allocator.hpp>      *)
(*                compiled and the program ran                             *)
(*   named        macros given on the command line (or whose flags were)   *)
(*   defined      AVEL_* feature macros defined after inclusion            *)
(*   types        complete Vector<T,N> types as [t, n] pairs               *)
(*   maxw / natw  [t, n] pairs of the vecMx / vecNx aliases                *)
(*   layout_ok    sizeof == N*sizeof(T), trivially copyable, mask trivial  *)
(***************************************************************************)
PairSet(s) == {<<s[i][1], s[i][2]>> : i \in 1..Len(s)}
SeqSet(s) == {s[i] : i \in 1..Len(s)}

ConfigFactOK(e) ==
  LET C == Closure(SeqSet(e.named)) IN
  /\ e.compiled = 1
  /\ e.sig = "none"
  /\ C \subseteq SeqSet(e.defined)                 \* naming one macro is enough
  /\ PairSet(e.types) = TypesOf(C)                 \* exactly the documented widths
  /\ \A i \in 1..Len(e.maxw) : e.maxw[i][2] = MaxWidth(C, e.maxw[i][1])
  /\ \A i \in 1..Len(e.natw) : e.natw[i][2] = MaxWidth(C, e.natw[i][1])   \* on x86 the natural width is the widest register
  /\ e.layout_ok = 1
\* a standalone inclusion of one header must compile
IncludeFactOK(e) == e.compiled = 1
\* the API table: an operation the width-1 vector offers is declared for every
\* wider vector of that element type, and every declared operation is defined
\* ... and including the headers from two translation units of one program links
\* (no non-inline definitions in headers)
ApiFactOK(e) == /\ e.declared_w1 = 1 => (e.declared = 1 /\ e.defined = 1)
                /\ ("multiple" \in DOMAIN e => e.multiple = 0)
=============================================================================
