----------------------------- MODULE TraceDenom -----------------------------
(***************************************************************************)
(* Trace validation of denominator object histories:                       *)
(*    new(id, d) ; [bcast(id2, id)] ; ( div | value )* ; [dshift(id3, id)] *)
(* The specification keeps den[id] = the divisor lanes given at            *)
(* construction and judges every later use of the object against its own   *)
(* state (never against a divisor re-logged at the use).  Constructing or   *)
(* using a denominator for non-zero divisors must not raise a signal.      *)
(***************************************************************************)
EXTENDS Denom, TLC, Json, IOUtils

Tr == ndJsonDeserialize(IOEnv.TRACE)

VARIABLES l, nrej, den     \* den: [id -> [k, w, d]] for the ids alive in the trace
vars == <<l, nrej, den>>

Init == l = 1 /\ nrej = 0 /\ den = <<>>

Reject == PrintT(<<"REJECT", l>>) /\ nrej' = nrej + 1
Put(id, v) == [i \in (DOMAIN den) \cup {id} |-> IF i = id THEN v ELSE den[i]]

\* {"e":"new","id":..,"k":..,"w":..,"d":[flat bytes],"sig":..}
New(e) == /\ den' = Put(e.id, [k |-> e.k, w |-> e.w, d |-> e.d])
          /\ IF e.sig = "none" \/ ~NonZeroLanes(e.d, e.w) THEN UNCHANGED nrej ELSE Reject

\* {"e":"bcast","id":..,"from":..,"N":..,"sig":..}: vector denominator from a scalar one
Bcast(e) == LET s == den[e.from] IN
            /\ den' = Put(e.id, [k |-> s.k, w |-> s.w, d |-> Replicate(s.d, e.N)])
            /\ IF e.sig = "none" THEN UNCHANGED nrej ELSE Reject

\* {"e":"copy","id":..,"from":..,"form":"ctor"|"assign"}: a denominator is a value - the copy (or the object
\* assigned to, whatever divisor it held before) divides like its source
Copy(e) == /\ den' = Put(e.id, den[e.from])
           /\ IF e.sig = "none" THEN UNCHANGED nrej ELSE Reject

\* {"e":"dshift","id":..,"from":..,"o":"shl"|"shr","s":[lane bytes],"sig":..}: den << s / den >> s multiply / divide
\* the divisor by 2^s (beyond C14; the driver only issues amounts that keep the divisor exact)
DShift(e) == LET o == den[e.from]
                 nl == NLanes(o.d, o.w)
                 nd == [i \in 1..Len(o.d) |->
                          IntShift(e.o, o.k, LaneOf(o.d, ((i - 1) \div o.w) + 1, o.w), e.s)[((i - 1) % o.w) + 1]]
             IN /\ den' = Put(e.id, [k |-> o.k, w |-> o.w, d |-> nd])
                /\ IF e.sig = "none" THEN UNCHANGED nrej ELSE Reject

\* {"e":"div","id":..,"n":..,"q":..,"r":..,"sig":..}  (div, / and %, /= and %= alike)
Div(e) == LET o == den[e.id]
              ok == e.sig = "none" /\ DenDivOK(o.k, o.w, o.d, e.n, e.q, e.r)
          IN (IF ok THEN UNCHANGED nrej ELSE Reject) /\ UNCHANGED den

\* {"e":"value","id":..,"v":..}
Value(e) == (IF e.sig = "none" /\ e.v = den[e.id].d THEN UNCHANGED nrej ELSE Reject) /\ UNCHANGED den

Consume == /\ l <= Len(Tr)
           /\ LET e == Tr[l] IN
                CASE e.e = "new"   -> New(e)
                  [] e.e = "bcast" -> Bcast(e)
                  [] e.e = "dshift" -> DShift(e)
                  [] e.e = "copy"  -> Copy(e)
                  [] e.e = "div"   -> Div(e)
                  [] e.e = "value" -> Value(e)
                  [] OTHER -> Reject /\ UNCHANGED den
           /\ l' = l + 1
Done == /\ l = Len(Tr) + 1 /\ PrintT(<<"DONE", Len(Tr), nrej>>)
        /\ l' = l + 1 /\ UNCHANGED <<nrej, den>>
Next == Consume \/ Done
Spec == Init /\ [][Next]_vars
=============================================================================
