------------------------------ MODULE MC_Alloc ------------------------------
(***************************************************************************)
(* Design-level model of avel::Aligned_allocator<T,A> (C18) over a         *)
(* nondeterministic system heap: malloc/aligned_alloc/posix_memalign may   *)
(* return ANY free range with the alignment they guarantee.                *)
(*                                                                         *)
(* Variant (the three implementations the build selects):                  *)
(*   "overalloc"  C++11/14 without SSE: malloc(es + A + sizeof(size_t)),   *)
(*                std::align, offset word stored at p + es, read back in   *)
(*                deallocate from ptr + n                                  *)
(*   "aligned"    C++17/20 without SSE: aligned_alloc(A, es rounded up)    *)
(*   "mm"         SSE: _mm_malloc(es, A) = posix_memalign                  *)
(* The user may overwrite every byte of every live block (UserWrite).      *)
(* C18: returned pointers aligned, user ranges inside their own system     *)
(* block, pairwise disjoint and disjoint from allocator bookkeeping (the   *)
(* offset words), every deallocate frees exactly the system block the      *)
(* allocation came from, nothing is left at quiescence.                    *)
(*                                                                         *)
(* OVERHEAD is the extra bytes requested beside es + A in the overalloc    *)
(* variant: 8 in the code.  TLC shows 0 would still be safe while the      *)
(* system malloc is 16-byte aligned (at most A-16 bytes are skipped) -     *)
(* so a change dropping it is benign - but storing the word anywhere       *)
(* inside the user range, or reading it from ptr+n-1, is not.              *)
(***************************************************************************)
EXTENDS Naturals, FiniteSets, TLC
CONSTANTS ARENA, G, A, SIZES, MAXLIVE, OVERHEAD, Variant,
          WordInside  \* FALSE in the code: offset word at p + es; TRUE: a faulty variant storing it in the last 8 user bytes
VARIABLES sys, live, word, clobbered, bad
vars == <<sys, live, word, clobbered, bad>>

Range(b, n) == IF n = 0 THEN {} ELSE b .. (b + n - 1)
SysRange(s) == Range(s.base, s.size)
FreeAt(base, size) == /\ base + size <= ARENA
                      /\ \A s \in sys : SysRange(s) \cap Range(base, size) = {}
                      /\ \A s \in sys : s.base # base                 \* distinct even for size 0
AlignUp(x, a) == ((x + a - 1) \div a) * a
WordBytes == 8

Init == sys = {} /\ live = {} /\ word = <<>> /\ clobbered = {} /\ bad = FALSE

AllocOver(es) ==
  LET total == es + A + OVERHEAD IN
  \E base \in {b \in 0..(ARENA - 1) : b % G = 0} :
     /\ FreeAt(base, total)
     /\ LET p == AlignUp(base, A)  off == p - base  wa == IF WordInside /\ es >= 8 THEN p + es - 8 ELSE p + es IN
        /\ sys' = sys \cup {[base |-> base, size |-> total]}
        /\ live' = live \cup {[p |-> p, es |-> es, base |-> base, wa |-> wa]}
        /\ word' = [a \in (DOMAIN word) \cup {wa} |-> IF a = wa THEN off ELSE word[a]]
        /\ clobbered' = clobbered \ {wa}
        /\ UNCHANGED bad

AllocDirect(es, size) ==       \* aligned_alloc / posix_memalign: system returns an A-aligned block
  \E base \in {b \in 0..(ARENA - 1) : b % A = 0} :
     /\ FreeAt(base, size)
     /\ sys' = sys \cup {[base |-> base, size |-> size]}
     /\ live' = live \cup {[p |-> base, es |-> es, base |-> base, wa |-> ARENA + 1 + base]}
     /\ UNCHANGED <<word, clobbered, bad>>

Allocate(es) ==
  /\ Cardinality(live) < MAXLIVE
  /\ CASE Variant = "overalloc" -> AllocOver(es)
       [] Variant = "aligned"   -> AllocDirect(es, AlignUp(es, A))
       [] Variant = "mm"        -> AllocDirect(es, es)

\* the user may write any byte of a live block
UserWrite ==
  \E b \in live : \E a \in Range(b.p, b.es) :
     /\ \E c \in live : a \in Range(c.wa, WordBytes)
     /\ clobbered' = clobbered \cup {c.wa : c \in {c2 \in live : a \in Range(c2.wa, WordBytes)}}
     /\ UNCHANGED <<sys, live, word, bad>>

Deallocate ==
  \E b \in live :
     LET off == IF Variant # "overalloc" THEN 0
                ELSE IF b.wa \in clobbered THEN 255 ELSE word[b.wa]
         fbase == b.p - off
     IN /\ live' = live \ {b}
        /\ IF \E s \in sys : s.base = fbase
             THEN sys' = {s \in sys : s.base # fbase} /\ bad' = bad
             ELSE sys' = sys /\ bad' = TRUE
        /\ word' = [a \in (DOMAIN word) \ {b.wa} |-> word[a]]
        /\ clobbered' = clobbered \ {b.wa}

Next == (\E es \in SIZES : Allocate(es)) \/ UserWrite \/ Deallocate
Spec == Init /\ [][Next]_vars

(* ------------------------------- C18 ---------------------------------- *)
Aligned   == \A b \in live : b.p % A = 0
Contained == \A b \in live : \E s \in sys :
                /\ s.base = b.base /\ Range(b.p, b.es) \subseteq SysRange(s)
                /\ (Variant = "overalloc" => Range(b.wa, WordBytes) \subseteq SysRange(s))
Disjoint  == \A b1, b2 \in live : b1 # b2 => Range(b1.p, b1.es) \cap Range(b2.p, b2.es) = {}
WordSafe  == \A b, c \in live : Range(b.p, b.es) \cap Range(c.wa, WordBytes) = {}
ValidFrees == ~bad
NoLeak    == (live = {}) => (sys = {})
C18 == Aligned /\ Contained /\ Disjoint /\ WordSafe /\ ValidFrees /\ NoLeak
=============================================================================
