------------------------------ MODULE Gen_Mask ------------------------------
(***************************************************************************)
(* TLC -> code.  A one-register mask machine over N lanes: TLC explores    *)
(* its complete state graph (all 2^N values x every action) and prints     *)
(* every transition as  <<"EDGE", pre, op, arg1, arg2, post>>  (masks as   *)
(* integers, lane i = bit i-1).  The replayer (harness/replay_mask.cpp)    *)
(* puts a real Vector_mask of every type with N lanes into the pre state,  *)
(* performs the operation and compares every observer with the post state  *)
(* computed here: one implementation test per transition.                  *)
(***************************************************************************)
EXTENDS Mask, TLC
CONSTANT N
VARIABLES m, op
vars == <<m, op>>

RECURSIVE EncFrom(_, _)
EncFrom(x, i) == IF i > N THEN 0 ELSE (IF x[i] THEN 2 ^ (i - 1) ELSE 0) + EncFrom(x, i + 1)
Enc(x) == EncFrom(x, 1)
DecI(v) == [i \in 1..N |-> (v \div 2 ^ (i - 1)) % 2 = 1]
Full == 2 ^ N - 1
\* operand constants for the binary operations
Consts == {0, Full, 1, 2 ^ (N - 1)} \cup {v \in 0..Full : v = (Full \div 3) \/ v = Full - (Full \div 3)}

Init == m = DecI(0) /\ op = <<"init", 0, 0>>
Bin(name, F(_, _)) == \E c \in Consts : m' = F(m, DecI(c)) /\ op' = <<name, c, 0>>
Next == \/ m' = MNot(m) /\ op' = <<"m_not", 0, 0>>
        \/ Bin("m_and", MAnd) \/ Bin("m_or", MOr) \/ Bin("m_xor", MXor)
        \/ Bin("m_and_eq", MAnd) \/ Bin("m_or_eq", MOr) \/ Bin("m_xor_eq", MXor)
        \/ Bin("m_land", MAnd) \/ Bin("m_lor", MOr)
        \/ \E i \in 1..N, b \in {0, 1} : m' = MIns(m, i, b = 1) /\ op' = <<"m_insert", i - 1, b>>
        \/ \E b \in {0, 1} : m' = MConst(N, b = 1) /\ op' = <<"m_from_bool", b, 0>>
        \/ \E v \in 0..Full : m' = DecI(v) /\ op' = <<"m_from_array", v, 0>>
Spec == Init /\ [][Next]_vars
View == m
\* printed for every explored transition (always TRUE)
Emit == PrintT(<<"EDGE", Enc(m), op'[1], op'[2], op'[3], Enc(m')>>)
=============================================================================
