------------------------------- MODULE BV -------------------------------
(***************************************************************************)
(* Bit vectors and natural numbers as little-endian sequences of bytes.    *)
(*                                                                         *)
(* TLC integers are 32-bit, so a 32/64-bit lane, a 53-bit significand or   *)
(* a 128-bit product cannot be a TLC integer.  Every value wider than 16   *)
(* bits is therefore a sequence of bytes, least significant first -        *)
(* exactly the byte image that avel::to_array / store produce on x86.      *)
(* All intermediates stay far below 2^31.                                  *)
(*                                                                         *)
(* Two families live here:                                                 *)
(*   BN*  - unbounded naturals ("bignums"), any length, no wrap-around     *)
(*   *W   - fixed-width lanes: length preserved, arithmetic modulo 2^W     *)
(* For lengths <= 3 every operation also has a "native" meaning through    *)
(* ToNat/FromNatL; MC_BV.tla checks the two against each other.            *)
(***************************************************************************)
EXTENDS Integers, Sequences

Max2(a, b) == IF a > b THEN a ELSE b
Min2(a, b) == IF a < b THEN a ELSE b

Zeros(n) == [i \in 1..n |-> 0]
Ones(n)  == [i \in 1..n |-> 255]
Dig(x, i) == IF i >= 1 /\ i <= Len(x) THEN x[i] ELSE 0

IsByteSeq(x, n) == Len(x) = n /\ \A i \in 1..n : x[i] \in 0..255

RECURSIVE IsZeroFrom(_, _)
IsZeroFrom(x, i) == i > Len(x) \/ (x[i] = 0 /\ IsZeroFrom(x, i + 1))
BNIsZero(x) == IsZeroFrom(x, 1)

(***************************************************************************)
(* Native view (only for short sequences; value < 2^31 required).          *)
(***************************************************************************)
RECURSIVE ToNatFrom(_, _)
ToNatFrom(x, i) == IF i > Len(x) THEN 0 ELSE x[i] + 256 * ToNatFrom(x, i + 1)
ToNat(x) == ToNatFrom(x, 1)

RECURSIVE FromNat(_)
FromNat(n) == IF n = 0 THEN <<>> ELSE <<n % 256>> \o FromNat(n \div 256)
\* fixed length L, truncating
FromNatL(n, L) == [i \in 1..L |-> IF i > 4 THEN 0 ELSE (n \div (256 ^ (i - 1))) % 256]   \* n < 2^31

(***************************************************************************)
(* Bits.  Bit(x,i) is bit i (0 = least significant) of the sequence.       *)
(***************************************************************************)
P2 == <<1, 2, 4, 8, 16, 32, 64, 128, 256>>          \* P2[k+1] = 2^k, k <= 8
Bit(x, i) == IF i < 0 \/ i >= 8 * Len(x) THEN 0
             ELSE (x[(i \div 8) + 1] \div P2[(i % 8) + 1]) % 2
\* build an L-byte sequence from a bit predicate b(i), i in 0..8L-1
FromBits(b(_), L) ==
  [j \in 1..L |->
     LET o == 8 * (j - 1) IN
       b(o) + 2 * b(o+1) + 4 * b(o+2) + 8 * b(o+3)
     + 16 * b(o+4) + 32 * b(o+5) + 64 * b(o+6) + 128 * b(o+7)]

\* nibble tables for the bitwise connectives (constants, evaluated once)
NibBits(n) == <<n % 2, (n \div 2) % 2, (n \div 4) % 2, (n \div 8) % 2>>
NibAndT == [a \in 0..15 |-> [b \in 0..15 |->
   LET x == NibBits(a) y == NibBits(b) IN
     x[1]*y[1] + 2*x[2]*y[2] + 4*x[3]*y[3] + 8*x[4]*y[4]]]
ByteAnd(a, b) == 16 * NibAndT[a \div 16][b \div 16] + NibAndT[a % 16][b % 16]
ByteOr(a, b)  == a + b - ByteAnd(a, b)
ByteXor(a, b) == a + b - 2 * ByteAnd(a, b)
ByteNot(a)    == 255 - a

AndW(x, y) == [i \in 1..Len(x) |-> ByteAnd(x[i], y[i])]
OrW(x, y)  == [i \in 1..Len(x) |-> ByteOr(x[i], y[i])]
XorW(x, y) == [i \in 1..Len(x) |-> ByteXor(x[i], y[i])]
NotW(x)    == [i \in 1..Len(x) |-> 255 - x[i]]
AndNotW(x, y) == AndW(x, NotW(y))                    \* x & ~y

(***************************************************************************)
(* Unbounded naturals.                                                     *)
(***************************************************************************)
RECURSIVE CmpFrom(_, _, _)
CmpFrom(x, y, i) == IF i = 0 THEN 0
                    ELSE IF Dig(x, i) > Dig(y, i) THEN 1
                    ELSE IF Dig(x, i) < Dig(y, i) THEN -1
                    ELSE CmpFrom(x, y, i - 1)
BNCmp(x, y) == CmpFrom(x, y, Max2(Len(x), Len(y)))      \* -1, 0, 1

RECURSIVE AddFrom(_, _, _, _, _)
AddFrom(x, y, i, n, c) ==
  IF i > n THEN (IF c = 0 THEN <<>> ELSE <<c>>)
  ELSE LET t == Dig(x, i) + Dig(y, i) + c
       IN <<t % 256>> \o AddFrom(x, y, i + 1, n, t \div 256)
BNAdd(x, y) == AddFrom(x, y, 1, Max2(Len(x), Len(y)), 0)

RECURSIVE SubFrom(_, _, _, _, _)
SubFrom(x, y, i, n, b) ==
  IF i > n THEN <<>>
  ELSE LET t == Dig(x, i) - Dig(y, i) - b
       IN IF t < 0 THEN <<t + 256>> \o SubFrom(x, y, i + 1, n, 1)
                   ELSE <<t>> \o SubFrom(x, y, i + 1, n, 0)
\* x - y for x >= y (for x < y the result is the difference modulo 256^n)
BNSub(x, y) == SubFrom(x, y, 1, Max2(Len(x), Len(y)), 0)

RECURSIVE MulSmallFrom(_, _, _, _)
MulSmallFrom(x, k, i, c) ==
  IF i > Len(x) THEN FromNat(c)
  ELSE LET t == x[i] * k + c
       IN <<t % 256>> \o MulSmallFrom(x, k, i + 1, t \div 256)
BNMulSmall(x, k) == MulSmallFrom(x, k, 1, 0)            \* 0 <= k <= 2^16
BNShl(x, k) == Zeros(k \div 8) \o MulSmallFrom(x, P2[(k % 8) + 1], 1, 0)

RECURSIVE ColSum(_, _, _, _)
ColSum(x, y, k, i) == IF i > k + 1 THEN 0
                      ELSE Dig(x, i) * Dig(y, k + 2 - i) + ColSum(x, y, k, i + 1)
RECURSIVE MulCols(_, _, _, _, _)
MulCols(x, y, k, n, c) ==
  IF k >= n THEN FromNat(c)
  ELSE LET t == ColSum(x, y, k, 1) + c
       IN <<t % 256>> \o MulCols(x, y, k + 1, n, t \div 256)
BNMul(x, y) == MulCols(x, y, 0, Len(x) + Len(y), 0)

\* number of significant bits (0 for zero)
RECURSIVE TopByteIdx(_, _)
TopByteIdx(x, i) == IF i = 0 THEN 0 ELSE IF x[i] # 0 THEN i ELSE TopByteIdx(x, i - 1)
ByteBitLen(b) == IF b >= 128 THEN 8 ELSE IF b >= 64 THEN 7 ELSE IF b >= 32 THEN 6
                 ELSE IF b >= 16 THEN 5 ELSE IF b >= 8 THEN 4 ELSE IF b >= 4 THEN 3
                 ELSE IF b >= 2 THEN 2 ELSE IF b >= 1 THEN 1 ELSE 0
BNBitLen(x) == LET t == TopByteIdx(x, Len(x)) IN
               IF t = 0 THEN 0 ELSE 8 * (t - 1) + ByteBitLen(x[t])

\* floor(x / 2^k) as a sequence of the same length
BNShr(x, k) == LET L == Len(x) b(i) == Bit(x, i + k) IN FromBits(b, L)
\* TRUE iff some bit below position k is set
BNLowBitsNonZero(x, k) == \E i \in 0..(Min2(k, 8 * Len(x)) - 1) : Bit(x, i) = 1

(***************************************************************************)
(* Fixed-width lanes.  L = Len(x) bytes, W = 8L bits.                      *)
(***************************************************************************)
Trunc(x, L) == [i \in 1..L |-> Dig(x, i)]
ZExt(x, L)  == Trunc(x, L)
SignBit(x)  == x[Len(x)] \div 128
SExt(x, L)  == [i \in 1..L |-> IF i <= Len(x) THEN x[i] ELSE 255 * SignBit(x)]

AddW(x, y) == Trunc(BNAdd(x, y), Len(x))
NegW(x)    == Trunc(BNAdd(NotW(x), <<1>>), Len(x))
SubW(x, y) == Trunc(BNAdd(x, NegW(y)), Len(x))
MulW(x, y) == LET L == Len(x) IN Trunc(MulCols(x, y, 0, L, 0), L)
IncW(x) == AddW(x, Trunc(<<1>>, Len(x)))
DecW(x) == SubW(x, Trunc(<<1>>, Len(x)))

CmpU(x, y) == BNCmp(x, y)
\* signed compare: flip the sign bits and compare unsigned
FlipTop(x) == [x EXCEPT ![Len(x)] = (x[Len(x)] + 128) % 256]
CmpS(x, y) == BNCmp(FlipTop(x), FlipTop(y))
Cmp(k, x, y) == IF k = "i" THEN CmpS(x, y) ELSE CmpU(x, y)
IsNeg(k, x) == k = "i" /\ SignBit(x) = 1
AbsW(k, x) == IF IsNeg(k, x) THEN NegW(x) ELSE x       \* magnitude as unsigned W-bit

\* shifts by s in 0..W (s = W gives 0 / sign fill); FromBits form
ShlW(x, s) == LET b(i) == Bit(x, i - s) IN FromBits(b, Len(x))
ShrW(x, s) == LET b(i) == Bit(x, i + s) IN FromBits(b, Len(x))
SarW(x, s) == LET W == 8 * Len(x)
                  b(i) == IF i + s >= W THEN SignBit(x) ELSE Bit(x, i + s)
              IN FromBits(b, Len(x))
RotlW(x, s) == LET W == 8 * Len(x) b(i) == Bit(x, (i - s) % W) IN FromBits(b, Len(x))
RotrW(x, s) == LET W == 8 * Len(x) b(i) == Bit(x, (i + s) % W) IN FromBits(b, Len(x))

\* the amount operand of a shift/rotate is itself a byte sequence (a lane of a
\* vector of amounts or a long long); AmtLE(s, W) <=> its unsigned value <= W
AmtLE(s, W) == s[1] <= W /\ \A i \in 2..Len(s) : s[i] = 0
AmtVal(s) == s[1]                                  \* valid when AmtLE(s, 64)
\* residue modulo W (a power of two <= 64) of a two's-complement amount
AmtMod(s, W) == s[1] % W

RECURSIVE PopFrom(_, _)
PopFrom(x, i) == IF i >= 8 * Len(x) THEN 0 ELSE Bit(x, i) + PopFrom(x, i + 1)
PopCount(x) == PopFrom(x, 0)
\* count of leading (from the top) bits equal to v
RECURSIVE ClFrom(_, _, _)
ClFrom(x, i, v) == IF i < 0 THEN 0 ELSE IF Bit(x, i) = v THEN 1 + ClFrom(x, i - 1, v) ELSE 0
Clz(x) == ClFrom(x, 8 * Len(x) - 1, 0)
Clo(x) == ClFrom(x, 8 * Len(x) - 1, 1)
RECURSIVE CrFrom(_, _, _)
CrFrom(x, i, v) == IF i >= 8 * Len(x) THEN 0 ELSE IF Bit(x, i) = v THEN 1 + CrFrom(x, i + 1, v) ELSE 0
Ctz(x) == CrFrom(x, 0, 0)
Cto(x) == CrFrom(x, 0, 1)
ByteSwap(x) == [i \in 1..Len(x) |-> x[Len(x) + 1 - i]]
\* the W-bit value 2^p (0 when p >= W)
Pow2W(p, L) == LET b(i) == IF i = p THEN 1 ELSE 0 IN FromBits(b, L)
=============================================================================
