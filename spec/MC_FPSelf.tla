----------------------------- MODULE MC_FPSelf -----------------------------
(***************************************************************************)
(* Self-check of the floating-point specification.  tools/fp_oracle.py (an *)
(* independent exact-rational IEEE-754 implementation) writes labelled     *)
(* facts: correct results and results corrupted by one ulp / a flipped     *)
(* sign / a non-NaN where NaN is due.  FP.tla must accept exactly the      *)
(* correct ones.  A disagreement is a defect of FP.tla (or of the oracle), *)
(* never a statement about AVEL.                                           *)
(***************************************************************************)
EXTENDS FP, TLC, Json, IOUtils
Tr == ndJsonDeserialize(IOEnv.TRACE)
VARIABLES l, nrej
vars == <<l, nrej>>
Init == l = 1 /\ nrej = 0
Consume == /\ l <= Len(Tr)
           /\ IF FPFactOK(Tr[l]) = Tr[l].good THEN nrej' = nrej
              ELSE PrintT(<<"REJECT", l>>) /\ nrej' = nrej + 1
           /\ l' = l + 1
Done == l = Len(Tr) + 1 /\ PrintT(<<"DONE", Len(Tr), nrej>>) /\ l' = l + 1 /\ UNCHANGED nrej
Spec == Init /\ [][Consume \/ Done]_vars
=============================================================================
