"""Running TLC: bounded model checks and trace validation."""
import os
import re
import subprocess
import time
from concurrent.futures import ThreadPoolExecutor

VERIF = os.path.dirname(os.path.dirname(os.path.dirname(os.path.abspath(__file__))))
SPEC = os.path.join(VERIF, 'spec')
CP = '/opt/veriftools/tla/tla2tools.jar:/opt/veriftools/tla/CommunityModules-deps.jar'


class TLCError(Exception):
    """Infrastructure failure (never a property violation)."""


def _java(xmx, gc='-XX:+UseSerialGC', tmpdir=None):
    # TLC unpacks its standard modules into java.io.tmpdir on every start and never removes them:
    # point it into the run's scratch directory, which is deleted when the check ends
    j = ['java', gc, '-Xmx' + xmx, '-Xss64m']
    if tmpdir:
        os.makedirs(tmpdir, exist_ok=True)
        j.append('-Djava.io.tmpdir=' + tmpdir)
    return j + ['-cp', CP, 'tlc2.TLC']


_gen = re.compile(r'(\d+) states generated, (\d+) distinct states found')


def model_check(module, cfg_text, scratch, tag, workers=4, timeout=1500, xmx='6g', extra_args=()):
    """Run TLC on spec/<module>.tla with the given configuration text.
    Returns dict(states, generated, ok, output, wall_s, violated).
    Raises TLCError on an infrastructure failure."""
    md = os.path.join(scratch, 'md_' + tag)
    os.makedirs(md, exist_ok=True)
    cfg = os.path.join(scratch, tag + '.cfg')
    with open(cfg, 'w') as f:
        f.write(cfg_text)
    cmd = _java(xmx, '-XX:+UseParallelGC', os.path.join(scratch, 'jtmp')) + ['-workers', str(workers), '-noGenerateSpecTE', '-metadir', md, '-config', cfg] + list(extra_args) + [module + '.tla']
    t0 = time.time()
    try:
        p = subprocess.run(cmd, cwd=SPEC, stdout=subprocess.PIPE, stderr=subprocess.STDOUT,
                           universal_newlines=True, timeout=timeout)
    except subprocess.TimeoutExpired:
        raise TLCError('TLC timeout (%ds) on %s/%s' % (timeout, module, tag))
    out = p.stdout
    m = None
    for m in _gen.finditer(out):
        pass
    res = {'cmd': ' '.join(cmd), 'wall_s': time.time() - t0, 'output': out,
           'generated': int(m.group(1)) if m else 0, 'states': int(m.group(2)) if m else 0}
    if 'No error has been found' in out and p.returncode == 0:
        res['ok'] = True
        res['violated'] = None
        return res
    mv = re.search(r'Invariant (\S+) is violated|Action property (\S+) is violated|Temporal properties were violated', out)
    if mv:
        res['ok'] = False
        res['violated'] = mv.group(1) or mv.group(2) or 'temporal'
        return res
    raise TLCError('TLC failed on %s/%s (exit %d):\n%s' % (module, tag, p.returncode, out[-3000:]))


_rej = re.compile(r'<<"REJECT", (\d+)(?:, [^>]*)?>>')
_done = re.compile(r'<<"DONE", (\d+), (\d+)>>')


def validate_trace(module, trace_path, scratch, tag, timeout=1800, xmx='3g', cfg_name=None, env_extra=None, cfg_text=None):
    """Validate one ndjson trace with spec/<module>.tla (+ .cfg).
    Returns (n_events, [rejected 1-based line numbers]).  TLCError on failure."""
    md = os.path.join(scratch, 'md_' + tag)
    os.makedirs(md, exist_ok=True)
    cfg = os.path.join(SPEC, (cfg_name or module) + '.cfg')
    if cfg_text is not None:        # constants of this one trace (vector type)
        cfg = os.path.join(scratch, tag + '.cfg')
        with open(cfg, 'w') as f:
            f.write(cfg_text)
    cmd = _java(xmx, tmpdir=os.path.join(scratch, 'jtmp')) + ['-workers', '1', '-noGenerateSpecTE', '-metadir', md, '-config', cfg, module + '.tla']
    env = dict(os.environ)
    env['TRACE'] = trace_path
    if env_extra:
        env.update(env_extra)
    try:
        p = subprocess.run(cmd, cwd=SPEC, env=env, stdout=subprocess.PIPE, stderr=subprocess.STDOUT,
                           universal_newlines=True, timeout=timeout)
    except subprocess.TimeoutExpired:
        raise TLCError('TLC timeout (%ds) validating %s' % (timeout, trace_path))
    out = p.stdout
    d = _done.search(out)
    if not d or 'No error has been found' not in out:
        raise TLCError('trace validation did not complete for %s (exit %d):\n%s' % (trace_path, p.returncode, out[-3000:]))
    rej = sorted(set(int(x.group(1)) for x in _rej.finditer(out)))
    if len(rej) != int(d.group(2)):
        raise TLCError('reject count mismatch in %s: %d lines vs DONE %s' % (trace_path, len(rej), d.group(2)))
    return int(d.group(1)), rej


def validate_chunks(module, chunk_paths, scratch, prefix, parallel=16, cfg_texts=None, **kw):
    """Validate many chunks in parallel.  Returns list of (n_events, rejects) in order."""
    def one(i):
        if cfg_texts is not None:
            return validate_trace(module, chunk_paths[i], scratch, '%s_%d' % (prefix, i), cfg_text=cfg_texts[i], **kw)
        return validate_trace(module, chunk_paths[i], scratch, '%s_%d' % (prefix, i), **kw)
    with ThreadPoolExecutor(max_workers=parallel) as ex:
        return list(ex.map(one, range(len(chunk_paths))))
