"""Fact tables: run drivers per configuration, merge byte-identical facts,
hand the distinct ones to TLC, map rejections back to their provenance."""
import hashlib
import json
import os
import subprocess
from concurrent.futures import ThreadPoolExecutor

from . import tlc


RUN_ENV = None
RUN_PREFIX = None      # e.g. ['valgrind', '-q', ...]: run the drivers under an observer


class DriverError(Exception):
    pass


def run_driver(exe, args, out_prefix, timeout=3600, env=None):
    cmd = list(RUN_PREFIX or []) + [exe] + list(args) + [out_prefix]
    try:
        p = subprocess.run(cmd, stdout=subprocess.PIPE, stderr=subprocess.PIPE, universal_newlines=True,
                           timeout=timeout, env=env or RUN_ENV)
    except subprocess.TimeoutExpired:
        raise DriverError('driver timeout: ' + ' '.join(cmd))
    if p.returncode != 0:
        raise DriverError('driver failed (%d): %s\n%s' % (p.returncode, ' '.join(cmd), p.stderr[-2000:]))
    offered = written = swept = disagreements = 0
    for ln in p.stderr.splitlines():
        if ln.startswith('vh: offered='):
            parts = dict(kv.split('=') for kv in ln[4:].split())
            offered, written = int(parts['offered']), int(parts['written'])
        elif ln.startswith('vh-sweep:'):
            for kv in ln.split():
                if kv.startswith('inputs='):
                    swept += int(kv[7:])
                elif kv.startswith('disagreements='):
                    disagreements += int(kv[14:])
    return {'facts': out_prefix + '.facts', 'prov': out_prefix + '.prov', 'offered': offered, 'written': written,
            'swept': swept, 'disagreements': disagreements}


def run_drivers(jobs, parallel=16):
    """jobs: list of (tag, exe, args, out_prefix).  Returns {tag: result}."""
    def one(j):
        return j[0], run_driver(j[1], j[2], j[3])
    with ThreadPoolExecutor(max_workers=parallel) as ex:
        return dict(ex.map(one, jobs))


def _sha(path):
    h = hashlib.sha1()
    with open(path, 'rb') as f:
        for blk in iter(lambda: f.read(1 << 20), b''):
            h.update(blk)
    return h.hexdigest()


class Merged(object):
    """Distinct facts with, for each, the outputs (tags) that contained it."""

    def __init__(self):
        self.lines = []          # fact text (no newline)
        self.index = {}          # fact text -> position
        self.sources = []        # per fact: list of (tag, lineno) - first few
        self.nsources = []       # per fact: number of outputs containing it
        self.files = {}          # tag -> result dict
        self.classes = {}        # sha -> [tags]
        self.total_offered = 0

    def add_file(self, tag, res):
        self.files[tag] = res
        self.total_offered += res.get('offered', 0)
        self.total_swept = getattr(self, 'total_swept', 0) + res.get('swept', 0)
        self.total_disagreements = getattr(self, 'total_disagreements', 0) + res.get('disagreements', 0)
        sha = _sha(res['facts'])
        if sha in self.classes:
            # byte-identical to an output already merged: same facts, same verdicts
            self.classes[sha].append(tag)
            return
        self.classes[sha] = [tag]
        with open(res['facts']) as f:
            for n, ln in enumerate(f, 1):
                ln = ln.rstrip('\n')
                if getattr(self, 'keep', None) and not self.keep(ln):
                    continue
                i = self.index.get(ln)
                if i is None:
                    self.index[ln] = len(self.lines)
                    self.lines.append(ln)
                    self.sources.append([(tag, n)])
                elif len(self.sources[i]) < 64:
                    self.sources[i].append((tag, n))

    def tags_for(self, i):
        """All outputs that contain fact i (expanding identical-file classes)."""
        if not hasattr(self, '_rep'):
            self._rep = {tags[0]: tags for tags in self.classes.values()}
        out = []
        for tag, n in self.sources[i]:
            out += [(t, n) for t in self._rep.get(tag, [tag])]
        return out

    def _prov_lines(self, tag):
        if not hasattr(self, '_prov'):
            self._prov = {}
        if tag not in self._prov:
            with open(self.files[tag]['prov']) as f:
                self._prov[tag] = f.read().split('\n')
        return self._prov[tag]

    def provenance(self, i, limit=6):
        """[(tag, 'type:lane:form')]"""
        out = []
        for tag, n in self.tags_for(i)[:limit]:
            pl = self._prov_lines(tag)
            out.append((tag, pl[n - 1] if n - 1 < len(pl) else '?'))
        return out


def validate(merged, scratch, prefix, module='TraceFacts', chunk=40000, parallel=16, min_chunks=16, env_extra=None):
    """TLC-judge every distinct fact.  Returns (n_judged, [indices rejected])."""
    n = len(merged.lines)
    if n == 0:
        return 0, []
    nch = max(min_chunks, (n + chunk - 1) // chunk)
    nch = min(nch, max(1, n // 200)) or 1
    size = (n + nch - 1) // nch
    paths, bases = [], []
    for c in range(nch):
        lo, hi = c * size, min(n, (c + 1) * size)
        if lo >= hi:
            break
        p = os.path.join(scratch, '%s_chunk%d.ndjson' % (prefix, c))
        with open(p, 'w') as f:
            f.write('\n'.join(merged.lines[lo:hi]))
            f.write('\n')
        paths.append(p)
        bases.append(lo)
    res = tlc.validate_chunks(module, paths, scratch, prefix, parallel=parallel, env_extra=env_extra)
    rejected = []
    judged = 0
    for (cnt, rej), base, p in zip(res, bases, paths):
        judged += cnt
        rejected += [base + r - 1 for r in rej]
        os.unlink(p)
    if judged != n:
        raise tlc.TLCError('judged %d facts, expected %d' % (judged, n))
    return judged, rejected
