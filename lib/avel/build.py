"""Building harness drivers from /repo's *current working tree*.

Products are cached under /verif/build/cache/<key> where key hashes every file
below <repo>/include, the harness sources and the full command line.  An
edited tree therefore always rebuilds, an unchanged one never does.
"""
import hashlib
import os
import shutil
import subprocess
import sys
import threading
import time
from concurrent.futures import ThreadPoolExecutor

VERIF = os.path.dirname(os.path.dirname(os.path.dirname(os.path.abspath(__file__))))
HARNESS = os.path.join(VERIF, 'harness')
CACHE = os.path.join(VERIF, 'build', 'cache')
CACHE_CAP_BYTES = 12 << 30


def repo_root():
    return os.environ.get('AVEL_REPO', '/repo')


_tree_hash = {}


def tree_hash(root):
    """sha256 over (relative path, content) of every file under root."""
    if root in _tree_hash:
        return _tree_hash[root]
    h = hashlib.sha256()
    for d, dirs, files in sorted(os.walk(root)):
        dirs.sort()
        for f in sorted(files):
            p = os.path.join(d, f)
            h.update(os.path.relpath(p, root).encode())
            with open(p, 'rb') as fh:
                h.update(hashlib.sha256(fh.read()).digest())
    _tree_hash[root] = h.hexdigest()
    return _tree_hash[root]


def include_hash():
    return tree_hash(os.path.join(repo_root(), 'include'))


def harness_hash():
    return tree_hash(HARNESS)


class BuildError(Exception):
    pass


_locks = {}
_locks_guard = threading.Lock()


def _key(cmd_tail):
    h = hashlib.sha256()
    h.update(include_hash().encode())
    h.update(harness_hash().encode())
    h.update('\0'.join(cmd_tail).encode())
    return h.hexdigest()[:32]


def build(cfg, source, defs=(), extra=(), libs=(), expect_failure_ok=False):
    """Compile harness/<source> for configuration cfg.  Returns path of binary."""
    src = os.path.join(HARNESS, source)
    inc = os.path.join(repo_root(), 'include')
    tail = cfg.flags() + ['-I' + inc, '-I' + HARNESS] + ['-D' + d for d in defs] + list(extra) + [src] + list(libs)
    key = _key(tail)
    outdir = os.path.join(CACHE, key)
    exe = os.path.join(outdir, 'drv')
    with _locks_guard:
        lock = _locks.setdefault(key, threading.Lock())
    with lock:      # two jobs with the same command line (vector and scalar configuration twins) build once
        return _build_locked(cfg, source, defs, tail, outdir, exe)


def _pp_key(tail):
    """Second-level key: the preprocessed translation unit (no line markers, so no paths) plus every flag that is
    not an include path.  A header edit inside a preprocessor arm this configuration does not select leaves it
    unchanged, so the binary built from another tree is reused.  None if preprocessing fails (the compile will
    report the error)."""
    cmd = [a for a in tail if not a.startswith('-Wl,')] + ['-E', '-P']
    try:
        p = subprocess.run(cmd, stdout=subprocess.PIPE, stderr=subprocess.DEVNULL, timeout=600)
    except Exception:
        return None
    if p.returncode != 0:
        return None
    h = hashlib.sha256()
    h.update(p.stdout)
    h.update('\0'.join(os.path.basename(a) if a.startswith('/') else a for a in tail if not a.startswith('-I')).encode())
    return 'pp_' + h.hexdigest()[:32]


def _compile_into(cfg, source, defs, tail, outdir):
    tmpdir = outdir + '.tmp%d_%d' % (os.getpid(), threading.get_ident())
    os.makedirs(tmpdir, exist_ok=True)
    cmd = tail + ['-o', os.path.join(tmpdir, 'drv')]
    t0 = time.time()
    p = subprocess.run(cmd, stdout=subprocess.PIPE, stderr=subprocess.STDOUT, universal_newlines=True)
    if p.returncode != 0:
        shutil.rmtree(tmpdir, ignore_errors=True)
        raise BuildError('compile failed (%s, %s %s):\n%s\n%s' % (cfg.name, source, ' '.join(defs), ' '.join(cmd), p.stdout[-4000:]))
    with open(os.path.join(tmpdir, 'cmd.txt'), 'w') as f:
        f.write(' '.join(cmd) + '\n# %.1fs\n' % (time.time() - t0))
    try:
        os.rename(tmpdir, outdir)
    except OSError:
        shutil.rmtree(tmpdir, ignore_errors=True)   # another process won the race


def _build_locked(cfg, source, defs, tail, outdir, exe):
    if os.path.exists(exe):
        os.utime(outdir, None)
        return exe
    ppk = _pp_key(tail)
    if ppk is None:
        _compile_into(cfg, source, defs, tail, outdir)
        return exe
    ppdir = os.path.join(CACHE, ppk)
    ppexe = os.path.join(ppdir, 'drv')
    if not os.path.exists(ppexe):
        _compile_into(cfg, source, defs, tail, ppdir)
    else:
        os.utime(ppdir, None)
    # first-level entry (tree hash) -> the binary of the preprocessed unit
    tmpdir = outdir + '.tmp%d_%d' % (os.getpid(), threading.get_ident())
    os.makedirs(tmpdir, exist_ok=True)
    try:
        try:
            os.link(ppexe, os.path.join(tmpdir, 'drv'))
        except OSError:
            shutil.copy2(ppexe, os.path.join(tmpdir, 'drv'))
        os.rename(tmpdir, outdir)
    except OSError:
        shutil.rmtree(tmpdir, ignore_errors=True)
    return exe if os.path.exists(exe) else ppexe


def build_many(jobs, workers=16):
    """jobs: list of (tag, cfg, source, defs[, extra[, libs]]).  Returns {tag: exe}.
    Raises BuildError on the first failure (after all jobs finished)."""
    out, errs = {}, []

    def one(j):
        tag, cfg, source, defs = j[0], j[1], j[2], j[3]
        extra = j[4] if len(j) > 4 else ()
        libs = j[5] if len(j) > 5 else ()
        try:
            return tag, build(cfg, source, defs, extra, libs), None
        except BuildError as e:
            return tag, None, e

    with ThreadPoolExecutor(max_workers=workers) as ex:
        for tag, exe, err in ex.map(one, jobs):
            if err:
                errs.append(err)
            else:
                out[tag] = exe
    if errs:
        raise errs[0]
    return out


def prune_cache():
    """Keep the cache below its cap (least recently used first)."""
    if not os.path.isdir(CACHE):
        return
    ents = []
    total = 0
    for d in os.listdir(CACHE):
        p = os.path.join(CACHE, d)
        try:
            sz = sum(os.path.getsize(os.path.join(p, f)) for f in os.listdir(p))
            ents.append((os.path.getmtime(p), sz, p))
            total += sz
        except OSError:
            pass
    ents.sort()
    while total > CACHE_CAP_BYTES and ents:
        _, sz, p = ents.pop(0)
        shutil.rmtree(p, ignore_errors=True)
        total -= sz
