"""Check runner: context, violation / known-finding bookkeeping, evidence."""
import hashlib
import json
import os
import shutil
import sys
import tempfile
import time

from . import build, configs, facts, findings, tlc

VERIF = build.VERIF
EVIDENCE = os.path.join(VERIF, 'evidence')
REPLAY = os.path.join(VERIF, 'replay')


def brief(ev):
    d = {}
    for k, v in ev.items():
        if isinstance(v, list) and len(v) > 16:
            d[k] = '[%d bytes]' % len(v)
        else:
            d[k] = v
    return json.dumps(d, sort_keys=True)[:420]


class Ctx(object):
    def __init__(self, prop, tier, seed, only_cfgs=None):
        self.prop = prop
        self.tier = tier
        self.seed = seed
        self.t0 = time.time()
        # scratch directories of runs that were killed are not cleaned up by anybody else
        import glob
        for old in glob.glob('/var/tmp/avelverif_*'):
            try:
                if time.time() - os.path.getmtime(old) > 8 * 3600:
                    shutil.rmtree(old, ignore_errors=True)
            except OSError:
                pass
        self.scratch = tempfile.mkdtemp(prefix='avelverif_%s_' % prop, dir='/var/tmp')
        self.cfgs = configs.configs_for(tier)
        self.only_cfgs = only_cfgs
        if only_cfgs:
            self.cfgs = [c for c in configs.thorough_configs() if c.name in only_cfgs]
        self.kf = findings.load()
        self.violations = []        # (signature, replay path)
        self.kf_hits = {}
        self.extra = []
        self.elsewhere = {}         # (owners, what) -> [count, example event, occurrences]
        self.ev = {'states': 0, 'transitions': 0, 'traces_validated_against_impl': 0, 'samples': [],
                   'mc_runs': [], 'facts_judged_by_tlc': 0, 'facts_offered_by_drivers': 0,
                   'rejected_facts': 0, 'configurations': [c.describe() for c in self.cfgs],
                   'driver_outputs': 0}
        self.assumptions = []
        self.notes = []

    def log(self, *a):
        print('[%s %6.1fs]' % (self.prop, time.time() - self.t0), *a, file=sys.stderr)
        sys.stderr.flush()

    def cleanup(self):
        shutil.rmtree(self.scratch, ignore_errors=True)

    # ------------------------------------------------------------------
    def cfg_by_name(self, name):
        for c in self.cfgs:
            if c.name == name:
                return c
        return None

    def classify(self, event, occurrences, extra=None, owners=None):
        """A rejected event.  occurrences: [(cfgname, provenance-string)].
        Each occurrence either matches an open known finding or is a violation.
        owners: the properties the rejected event speaks about, where the machinery that produced it exercises more
        than the property being checked (the composed machine runs operations of many properties; every driver
        observes the floating-point environment).  An event owned by other properties only is reported as an
        ELSEWHERE line - the check of its owner gives the verdict - and is not an alarm of this check."""
        self.ev['rejected_facts'] += 1
        if owners is None and event.get('o') == 'env':
            owners = ('C11',)
        if owners is not None and self.prop not in owners:
            key = (tuple(sorted(owners)), str(event.get('e') or event.get('o')) + '/' + str(event.get('o') or event.get('op') or ''))
            d = self.elsewhere.setdefault(key, [0, event, occurrences[:2]])
            d[0] += 1
            return
        if event.get('x') == 1:
            # behaviour the specification covers beyond the listed properties: reported, never a verdict
            self.extra.append((event, occurrences[:2]))
            return
        if os.environ.get('AVEL_REJLOG'):
            with open(os.environ['AVEL_REJLOG'], 'a') as f:
                f.write(json.dumps({'prop': self.prop, 'event': event, 'occ': occurrences}) + '\n')
        unmatched = []
        for cfgname, prov in occurrences:
            cfg = self.cfg_by_name(cfgname.split('/')[0])
            ptype = (prov or '').split(':')[0]
            hit = None
            for f in self.kf:
                if f.matches(self.prop, event, cfg, ptype):
                    hit = f
                    break
            if hit:
                d = self.kf_hits.setdefault(hit.id, {'finding': hit, 'n': 0, 'example': None})
                d['n'] += 1
                if d['example'] is None:
                    d['example'] = (event, cfgname, prov)
            else:
                unmatched.append((cfgname, prov))
        if unmatched:
            self.add_violation(event, unmatched, extra)

    def add_violation(self, event, occurrences, extra=None):
        prov = (occurrences[0][1] or '::').split(':')
        sig = '%s/%s/%s/%s/%s' % (event.get('o') or event.get('e'), event.get('k', ''), prov[0], prov[-1], occurrences[0][0])
        for v in self.violations:
            if v['sig'] == sig:
                v['count'] += 1
                return
        os.makedirs(REPLAY, exist_ok=True)
        body = {'property': self.prop, 'event': event, 'occurrences': occurrences, 'tier': self.tier,
                'seed': self.seed, 'extra': extra}
        h = hashlib.sha1(json.dumps(body, sort_keys=True).encode()).hexdigest()[:12]
        path = os.path.join(REPLAY, '%s-%s.json' % (self.prop, h))
        with open(path, 'w') as f:
            json.dump(body, f, indent=1)
        self.violations.append({'sig': sig, 'path': path, 'count': 1, 'event': event, 'occ': occurrences})

    # ------------------------------------------------------------------
    def mc(self, module, cfg_text, tag, **kw):
        """Bounded model check of the specification itself.  A failure here is a
        defect of the specification (harness error), not of AVEL."""
        r = tlc.model_check(module, cfg_text, self.scratch, tag, **kw)
        if not r['ok']:
            raise tlc.TLCError('specification self-check %s/%s violated %s:\n%s' % (module, tag, r['violated'], r['output'][-3000:]))
        self.ev['states'] += r['states']
        self.ev['transitions'] += r['generated']
        self.ev['mc_runs'].append({'module': module, 'tag': tag, 'distinct_states': r['states'],
                                   'states_generated': r['generated'], 'wall_s': round(r['wall_s'], 1)})
        return r

    # ------------------------------------------------------------------
    def finish(self, level='model_checking', extra_cov=None):
        wall = time.time() - self.t0
        for k, d in sorted(self.kf_hits.items()):
            ev, cfgname, prov = d['example']
            print('KNOWN-FINDING: property=%s %s %s (%d rejected events; e.g. %s in %s %s)' % (
                self.prop, k, d['finding'].what, d['n'], brief(ev)[:260], cfgname, prov))
        groups = {}
        for ev, occ in self.extra:
            key = (ev.get('e') or ev.get('o'), (occ[0][1] or '').split(':')[0].split('.')[0] if occ else '')
            groups.setdefault(key, [0, ev, occ])[0] += 1
        for (what, unit), (cnt, ev, occ) in sorted(groups.items())[:12]:
            print('EXTRA: (beyond property %s, not a verdict) %d deviating %s event(s) on %s, e.g. %s at %s' % (
                self.prop, cnt, what, unit, brief(ev)[:260], occ[:1]))
        for (owners, what), (cnt, ev, occ) in sorted(self.elsewhere.items())[:12]:
            print('ELSEWHERE: (not a verdict of %s) %d rejected %s event(s) speak about %s and are decided by that check, e.g. %s at %s' % (
                self.prop, cnt, what, '/'.join(owners), brief(ev)[:200], occ[:1]))
        for v in self.violations:
            print('VIOLATION property=%s replay=%s' % (self.prop, v['path']))
            print('  %d rejected event(s) like %s at %s' % (v['count'], brief(v['event']), v['occ'][:3]))
        cov = dict(self.ev)
        if extra_cov:
            cov.update(extra_cov)
        if not cov['samples']:
            cov['samples'] = ['(no events)']
        cov['known_findings_matched'] = {k: d['n'] for k, d in self.kf_hits.items()}
        cov['extra_deviations_beyond_the_property'] = len(self.extra)
        cov['rejected_events_owned_by_other_properties'] = sum(d[0] for d in self.elsewhere.values())
        cov['states'] = max(1, cov['states'])
        cov['transitions'] = max(1, cov['transitions'])
        evd = {'property_id': self.prop, 'tier': self.tier, 'seed': self.seed, 'level': level,
               'coverage': cov, 'assumptions': self.assumptions, 'wall_s': round(wall, 1),
               'violations': len(self.violations), 'notes': self.notes,
               'repo_include_hash': build.include_hash()}
        evdir = EVIDENCE
        if os.environ.get('AVEL_REPO') and os.path.realpath(os.environ['AVEL_REPO']) != '/repo':
            # a run against another tree (seeded / benign change in a scratch worktree) must not replace the evidence
            # of /repo that is committed under /verif/evidence
            evdir = os.path.join('/var/tmp', 'avel_evidence_other_tree')
        os.makedirs(evdir, exist_ok=True)
        with open(os.path.join(evdir, self.prop + '.json'), 'w') as f:
            json.dump(evd, f, indent=1, sort_keys=True)
        self.log('done: %d violation signature(s), %d known finding(s), %.0fs' % (len(self.violations), len(self.kf_hits), wall))
        return 1 if self.violations else 0


# ----------------------------------------------------------------------
# generic lane-fact check
# ----------------------------------------------------------------------
def lane_facts(ctx, source, family, groups, cfg_filter=None, extra_defs=(), args_extra=(), module='TraceFacts', env_extra=None, cfgs=None, run_env=None, exec_prefix=None, only=None):
    """Build <source> for every configuration x group, run family, TLC-judge the
    distinct facts, classify rejections.  Returns number of facts judged."""
    if cfgs is None:
        cfgs = [c for c in ctx.cfgs if cfg_filter is None or cfg_filter(c)]
    else:
        ctx.cfgs = list(cfgs)
        ctx.ev['configurations'] = [c.describe() for c in cfgs]
    jobs = []
    for c in cfgs:
        for g in groups:
            jobs.append(('%s/%s' % (c.name, g), c, source, ['VH_GROUP=%s' % g] + list(extra_defs)))
    ctx.log('building %d driver binaries (%s) ...' % (len(jobs), source))
    exes = build.build_many(jobs)
    ctx.log('running drivers (%s) ...' % family)
    if run_env:
        facts.RUN_ENV = dict(os.environ, **run_env)
    else:
        facts.RUN_ENV = None
    facts.RUN_PREFIX = list(exec_prefix) if exec_prefix else None
    rjobs = []
    for tag, exe in exes.items():
        pre = os.path.join(ctx.scratch, '%s_%s' % (family, tag.replace('/', '_')))
        rjobs.append((tag, exe, [family, ctx.tier, str(ctx.seed)] + list(args_extra), pre))
    try:
        results = facts.run_drivers(rjobs)
    finally:
        facts.RUN_PREFIX = None
    total_judged = 0
    for g in groups:
        m = facts.Merged()
        m.keep = only               # (C11: the environment facts of the integer drivers)
        for c in cfgs:
            tag = '%s/%s' % (c.name, g)
            m.add_file(tag, results[tag])
        ctx.ev['facts_offered_by_drivers'] += m.total_offered
        if getattr(m, 'total_swept', 0):
            ctx.ev['inputs_swept_natively_not_judged'] = ctx.ev.get('inputs_swept_natively_not_judged', 0) + m.total_swept
            ctx.ev['disagreements_forwarded_to_tlc'] = ctx.ev.get('disagreements_forwarded_to_tlc', 0) + m.total_disagreements
        ctx.log('group %s: %d distinct facts from %d outputs (%d distinct outputs); TLC ...' % (
            g, len(m.lines), len(m.files), len(m.classes)))
        judged, rejected = facts.validate(m, ctx.scratch, '%s_g%s' % (family, g), module=module, env_extra=env_extra)
        total_judged += judged
        ctx.ev['facts_judged_by_tlc'] += judged
        nhw = sum(1 for ln in m.lines if '"hw":' in ln)
        if nhw:
            ctx.ev['events_observed_by_hardware_watchpoints'] = ctx.ev.get('events_observed_by_hardware_watchpoints', 0) + nhw
        ctx.ev['states'] += judged + 1          # one state of the trace machine per consumed fact
        ctx.ev['transitions'] += judged + 1
        ctx.ev['driver_outputs'] += len(m.files)
        bad_tags = set()
        for i in rejected:
            ev = json.loads(m.lines[i])
            occ = m.provenance(i, limit=40)
            for t, _ in occ:
                bad_tags.add(t)
            ctx.classify(ev, occ)
        ctx.ev['traces_validated_against_impl'] += len(m.files) - len(bad_tags)
        if m.lines and len(ctx.ev['samples']) < 12:
            step = max(1, len(m.lines) // 3)
            for i in range(0, len(m.lines), step):
                ctx.ev['samples'].append(json.loads(m.lines[i]))
        ctx.log('group %s: %d judged, %d rejected' % (g, judged, len(rejected)))
        for tag in m.files:
            for k in ('facts', 'prov'):
                pass
    return total_judged


# ----------------------------------------------------------------------
# ordered traces (register programs, histories): one file per (config, unit)
# ----------------------------------------------------------------------
def ordered_traces(ctx, source, family, groups, module, suffix, cfg_filter=None, extra_defs=(), libs=(), extra=(), cfgs=None, cfg_for=None, owners_fn=None):
    """Build and run <source>; the driver writes <prefix>.<unit><suffix> ndjson traces.
    Byte-identical traces (same program, same observations) are validated once.
    Returns number of distinct traces validated."""
    import glob
    import hashlib
    if cfgs is None:
        cfgs = [c for c in ctx.cfgs if cfg_filter is None or cfg_filter(c)]
    else:
        ctx.cfgs = list(cfgs)
        ctx.ev['configurations'] = [c.describe() for c in cfgs]
    jobs = []
    for c in cfgs:
        for g in groups:
            jobs.append(('%s/%s' % (c.name, g), c, source, ['VH_GROUP=%s' % g] + list(extra_defs), list(extra), list(libs)))
    ctx.log('building %d driver binaries (%s) ...' % (len(jobs), source))
    exes = build.build_many(jobs)
    rjobs = []
    for tag, exe in exes.items():
        pre = os.path.join(ctx.scratch, '%s_%s' % (family, tag.replace('/', '_')))
        rjobs.append((tag, exe, [family, ctx.tier, str(ctx.seed)], pre))
    ctx.log('running drivers (%s) ...' % family)
    facts.run_drivers(rjobs)
    classes = {}            # sha -> [(tag, unit, path)]
    for tag, exe, args, pre in rjobs:
        for p in sorted(glob.glob(pre + '.*' + suffix)):
            unit = os.path.basename(p)[len(os.path.basename(pre)) + 1:-len(suffix)]
            with open(p, 'rb') as f:
                sha = hashlib.sha1(f.read()).hexdigest()
            classes.setdefault(sha, []).append((tag, unit, p))
    paths = [v[0][2] for v in classes.values()]
    ctx.log('%d traces, %d distinct; TLC (%s) ...' % (sum(len(v) for v in classes.values()), len(paths), module))
    cfg_texts = [cfg_for(v[0][1]) for v in classes.values()] if cfg_for else None     # per-unit TLC constants
    res = tlc.validate_chunks(module, paths, ctx.scratch, family + '_tr', parallel=16, cfg_texts=cfg_texts)
    for (cnt, rej), members in zip(res, classes.values()):
        ctx.ev['states'] += cnt + 1
        ctx.ev['transitions'] += cnt + 1
        ctx.ev['driver_outputs'] += len(members)
        ctx.ev['trace_events_judged_by_tlc'] = ctx.ev.get('trace_events_judged_by_tlc', 0) + cnt
        path = members[0][2]
        if rej:
            with open(path) as f:
                lines = f.read().split('\n')
            envbad = set()
            if owners_fn:
                # the rounding mode as the specification has it at every line (SetEnv, and Force after a rejection):
                # an event that reports another mode is (also) about C11
                env = 'RN'
                for i, ln in enumerate(lines, 1):
                    if not ln.strip():
                        continue
                    e = json.loads(ln)
                    if e.get('e') == 'setenv':
                        env = e.get('m')
                    elif 'rm' in e and e['rm'] != env:
                        envbad.add(i)
                        env = e['rm']
            for r in rej:
                ev = json.loads(lines[r - 1])
                occ = [(t, '%s:%d:trace' % (u, r)) for t, u, _ in members]
                own = owners_fn(ev) if owners_fn else None
                if own is not None and r in envbad:
                    own = tuple(own) + ('C11',)
                ctx.classify(ev, occ, owners=own)
        else:
            ctx.ev['traces_validated_against_impl'] += len(members)
        if len(ctx.ev['samples']) < 12:
            with open(path) as f:
                for i, ln in enumerate(f):
                    if i in (1, 7):
                        ctx.ev['samples'].append(json.loads(ln))
    return len(paths)
