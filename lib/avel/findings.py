"""Known findings: genuine AVEL defects that are recorded rather than repaired.

/verif/known_findings.json is read-only at run time.  An *open* entry
suppresses exactly the rejections that match its signature (operation,
element kind/width, configuration predicate, input predicate); anything else
that TLC rejects is a violation.  *fixed* entries are documentation: they
suppress nothing.
"""
import json
import os
import re

VERIF = os.path.dirname(os.path.dirname(os.path.dirname(os.path.abspath(__file__))))
PATH = os.path.join(VERIF, 'known_findings.json')


def _bytes_to_int(b):
    v = 0
    for i, x in enumerate(b):
        v |= x << (8 * i)
    return v


def f_is_nan(b):
    v = _bytes_to_int(b)
    if len(b) == 4:
        return (v >> 23) & 0xFF == 0xFF and v & 0x7FFFFF != 0
    return (v >> 52) & 0x7FF == 0x7FF and v & ((1 << 52) - 1) != 0


def f_is_zero(b):
    return _bytes_to_int(b) & ((1 << (8 * len(b) - 1)) - 1) == 0


def f_is_inf(b):
    v = _bytes_to_int(b) & ((1 << (8 * len(b) - 1)) - 1)
    return v == (0xFF << 23 if len(b) == 4 else 0x7FF << 52)


def f_sign(b):
    return b[-1] >> 7


def f_is_subnormal(b):
    v = _bytes_to_int(b)
    if len(b) == 4:
        return (v >> 23) & 0xFF == 0 and v & 0x7FFFFF != 0
    return (v >> 52) & 0x7FF == 0 and v & ((1 << 52) - 1) != 0


def _probe_only_missing(e, allowed):
    """a configuration probe whose ONLY deviation is that some of `allowed` (documented as implied) are not defined"""
    from . import configs
    if e.get('o') != 'probe' or e.get('compiled') != 1 or e.get('layout_ok') != 1:
        return False
    c = configs.closure(e.get('named', []))
    missing = set(c) - set(e.get('defined', []))
    if not missing or not missing <= allowed:
        return False
    # everything else must be as documented: type table and alias widths
    def widths(t):
        bits = int(t[:-1])
        w = {1}
        if 'SSE2' in c:
            w.add(128 // bits)
        if 'AVX2' in c:
            w.add(256 // bits)
        if 'AVX512F' in c and (bits >= 32 or 'AVX512BW' in c):
            w.add(512 // bits)
        return w
    ts = ['8u', '8i', '16u', '16i', '32u', '32i', '64u', '64i', '32f', '64f']
    expect = set((t, n) for t in ts for n in widths(t))
    if set((t, n) for t, n in e.get('types', [])) != expect:
        return False
    return all(n == max(widths(t)) for t, n in e.get('maxw', []))


# named input predicates usable in "pred"
PREDS = {
    'a_zero': lambda e: all(x == 0 for x in e.get('a', [1])),
    'a_neg_zero': lambda e: 'a' in e and f_is_zero(e['a']) and f_sign(e['a']) == 1,
    'a_any_zero_f': lambda e: 'a' in e and f_is_zero(e['a']),
    'a_nan': lambda e: 'a' in e and f_is_nan(e['a']),
    'a_neg_nan': lambda e: 'a' in e and f_is_nan(e['a']) and f_sign(e['a']) == 1,
    'any_nan': lambda e: any(k in e and isinstance(e[k], list) and f_is_nan(e[k]) for k in ('a', 'b', 'c')),
    'both_nan': lambda e: f_is_nan(e['a']) and f_is_nan(e['b']),
    'a_inf': lambda e: 'a' in e and f_is_inf(e['a']),
    'a_subnormal': lambda e: 'a' in e and f_is_subnormal(e['a']),
    'a_negative_f': lambda e: 'a' in e and f_sign(e['a']) == 1,
    'r_zero_f': lambda e: 'r' in e and isinstance(e['r'], list) and f_is_zero(e['r']),
    'sig_none': lambda e: e.get('sig') == 'none',
    'sig_fpe': lambda e: e.get('sig') == 'FPE',
    'sig_segv': lambda e: e.get('sig') in ('SEGV', 'BUS'),
    'r_nan': lambda e: isinstance(e.get('r'), list) and f_is_nan(e['r']),
    'hw_hit': lambda e: e.get('hw', 0) > 0,
    'partial_count': lambda e: e.get('n', 0) < e.get('N', 0),
    'probe_only_doc_implication_missing': lambda e: _probe_only_missing(e, {'BMI', 'POPCNT'}),
    'ldexp_exp_beyond_two_steps': lambda e: abs(int.from_bytes(bytes(e['ex']), 'little', signed=True)) > (252 if len(e['a']) == 4 else 2044),
    'true': lambda e: True,
}


class Finding(object):
    def __init__(self, d):
        self.d = d
        self.id = d['id']
        self.props = d['property'] if isinstance(d['property'], list) else [d['property']]
        self.status = d.get('status', 'open')
        self.what = d.get('what', '')
        self.m = d.get('match', {})
        self.hits = 0

    def matches(self, prop, event, cfg, ptype):
        """event: dict of the rejected fact/event; cfg: Config; ptype: provenance type string."""
        if self.status != 'open' or prop not in self.props:
            return False
        m = self.m
        if 'op' in m and event.get('o') not in m['op']:
            return False
        if 'kind' in m and event.get('k') not in m['kind']:
            return False
        if 'width' in m:
            a = event.get('a') or event.get('r')
            w = 8 * len(a) if isinstance(a, list) else event.get('w')
            if w not in m['width']:
                return False
        if 'rm' in m and event.get('rm') not in m['rm']:
            return False
        if cfg is not None:
            if any(not cfg.has(x) for x in m.get('cfg_all', [])):
                return False
            if any(cfg.has(x) for x in m.get('cfg_none', [])):
                return False
            if 'cfg_any' in m and not any(cfg.has(x) for x in m['cfg_any']):
                return False
            if 'cxx' in m and cfg.cxx not in m['cxx']:
                return False
            if 'std' in m and cfg.std not in m['std']:
                return False
        if 'type_re' in m and not re.search(m['type_re'], ptype or ''):
            return False
        for k, v in m.get('fields', {}).items():
            if event.get(k) != v:
                return False
        for k, vs in m.get('field_in', {}).items():
            if event.get(k) not in vs:
                return False
        for p in m.get('pred', []):
            neg = p.startswith('!')
            fn = PREDS[p[1:] if neg else p]
            try:
                r = bool(fn(event))
            except Exception:
                r = False
            if r == neg:
                return False
        return True


def load():
    if not os.path.exists(PATH):
        return []
    with open(PATH) as f:
        return [Finding(x) for x in json.load(f).get('findings', [])]
