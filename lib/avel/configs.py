"""Build configurations of AVEL.

The macro implication relation is the one of docs/Capabilities.md; the
authoritative transcription is spec/Config.tla (MC_Config checks that the
table below and the TLA+ relation produce the same closures - see
`avelcheck run C19`).  Everything else (which compiler flags a macro set
needs, which vector types exist) is derived from the closed set.
"""

IMPLIES = {
    'AVX10_2': ['AVX10_1'],
    'AVX10_1': ['AVX2'],
    'GFNI': ['AVX512F'],
    'AVX512VBMI2': ['AVX512F'],
    'AVX512VBMI': ['AVX512F'],
    'AVX512BITALG': ['AVX512F'],
    'AVX512VPOPCNTDQ': ['AVX512F'],
    'AVX512CD': ['AVX512F'],
    'AVX512VL': ['AVX512F'],
    'AVX512DQ': ['AVX512F'],
    'AVX512BW': ['AVX512F'],
    'AVX512F': ['AVX2', 'FMA'],
    'FMA': ['AVX'],
    'AVX2': ['AVX'],
    'AVX': ['SSE4_2'],
    'SSE4_2': ['SSE4_1'],
    'SSE4_1': ['SSSE3', 'POPCNT'],
    'SSSE3': ['SSE3'],
    'SSE3': ['SSE2'],
    'SSE2': ['X86'],
    'BMI2': ['BMI'],
    'BMI': ['X86'],
    'LZCNT': ['X86'],
    'POPCNT': ['X86'],
    'PREFETCH': ['X86'],
}

FLAG = {
    'SSE': '-msse', 'SSE2': '-msse2', 'SSE3': '-msse3', 'SSSE3': '-mssse3',
    'SSE4_1': '-msse4.1', 'SSE4_2': '-msse4.2', 'AVX': '-mavx', 'AVX2': '-mavx2',
    'FMA': '-mfma', 'AVX512F': '-mavx512f', 'AVX512VL': '-mavx512vl',
    'AVX512BW': '-mavx512bw', 'AVX512DQ': '-mavx512dq', 'AVX512CD': '-mavx512cd',
    'AVX512VPOPCNTDQ': '-mavx512vpopcntdq', 'AVX512BITALG': '-mavx512bitalg',
    'AVX512VBMI': '-mavx512vbmi', 'AVX512VBMI2': '-mavx512vbmi2', 'GFNI': '-mgfni',
    'POPCNT': '-mpopcnt', 'LZCNT': '-mlzcnt', 'BMI': '-mbmi', 'BMI2': '-mbmi2',
    'PREFETCH': '-mprfchw',
}


def closure(macros):
    s = set(macros)
    changed = True
    while changed:
        changed = False
        for m in list(s):
            for t in IMPLIES.get(m, []):
                if t not in s:
                    s.add(t)
                    changed = True
    return frozenset(s)


class Config(object):
    def __init__(self, name, macros, cxx='g++', std='c++11', opt='-O1', extra=()):
        self.name = name
        self.macros = list(macros)          # macros named on the command line
        self.closed = closure(macros)       # what AVEL is expected to derive
        self.cxx = cxx
        self.std = std
        self.opt = opt
        self.extra = list(extra)

    def flags(self):
        f = [self.cxx, '-std=' + self.std, self.opt]
        f.append('-frounding-math')
        f += ['-DAVEL_' + m for m in self.macros]
        for m in sorted(self.closed):
            if m in FLAG and m != 'PREFETCH':
                f.append(FLAG[m])
        f += self.extra
        return f

    def has(self, m):
        return m in self.closed

    def widths(self):
        w = [1]
        if self.has('SSE2'):
            w.append(128)
        if self.has('AVX2'):
            w.append(256)
        if self.has('AVX512F'):
            w.append(512)
        return w

    def describe(self):
        return {'name': self.name, 'cxx': self.cxx, 'std': self.std, 'opt': self.opt,
                'macros': self.macros, 'closed': sorted(self.closed)}


AVX512_LEGACY = ['AVX512VL', 'AVX512BW', 'AVX512DQ', 'AVX512CD']
AVX512_FULL = AVX512_LEGACY + ['AVX512VPOPCNTDQ', 'AVX512BITALG', 'AVX512VBMI', 'AVX512VBMI2',
                               'GFNI', 'LZCNT', 'BMI2']


def quick_configs():
    return [
        Config('none', []),
        Config('x86scalar', ['POPCNT', 'LZCNT', 'BMI2']),
        Config('sse2', ['SSE2']),
        Config('ssse3', ['SSSE3']),                      # the SSSE3-without-SSE4.1 arms
        Config('sse41', ['SSE4_1']),                     # the SSE4.1-without-SSE4.2 arms
        Config('sse42', ['SSE4_2']),
        Config('avx2', ['AVX2', 'FMA', 'LZCNT', 'BMI2']),
        Config('avx512f', ['AVX512F']),
        Config('avx512vl', ['AVX512VL']),
        Config('avx512bwdq', ['AVX512BW', 'AVX512DQ']),                       # BW / DQ arms without VL and without CD
        Config('avx512vlbitalg', ['AVX512VL', 'AVX512BW', 'AVX512BITALG']),   # BITALG arms without VPOPCNTDQ
        Config('avx512legacy', AVX512_LEGACY),
        Config('avx512full', AVX512_FULL),
        Config('avx512full-clang20', AVX512_FULL, cxx='clang++', std='c++20', opt='-O2'),
    ]


def thorough_configs():
    c = quick_configs()
    c += [
        Config('x86', ['X86']),
        Config('popcnt', ['POPCNT']),
        Config('lzcnt', ['LZCNT']),
        Config('bmi', ['BMI']),
        Config('bmi2', ['BMI2']),
        Config('sse3', ['SSE3']),
        Config('ssse3', ['SSSE3']),
        Config('sse41', ['SSE4_1']),
        Config('avx', ['AVX']),
        Config('avx2only', ['AVX2']),
        Config('avx512bw', ['AVX512BW']),
        Config('avx512dq', ['AVX512DQ']),
        Config('avx512cd', ['AVX512CD']),
        Config('avx512vlbw', ['AVX512VL', 'AVX512BW']),
        Config('avx512vldq', ['AVX512VL', 'AVX512DQ']),
        Config('avx512vlcd', ['AVX512VL', 'AVX512CD']),
        Config('avx512vpopcntdq', ['AVX512VL', 'AVX512VPOPCNTDQ']),
        Config('avx512bitalg', ['AVX512VL', 'AVX512BW', 'AVX512BITALG']),
        Config('avx512vbmi', ['AVX512VL', 'AVX512BW', 'AVX512VBMI']),
        Config('avx512vbmi2', ['AVX512VL', 'AVX512BW', 'AVX512VBMI2']),
        Config('gfni', ['AVX512VL', 'AVX512BW', 'GFNI']),
        Config('sse2-clang17', ['SSE2'], cxx='clang++', std='c++17', opt='-O2'),
        Config('avx2-clang14', ['AVX2', 'FMA', 'LZCNT', 'BMI2'], cxx='clang++', std='c++14', opt='-O2'),
        Config('avx512legacy-gcc17-O2', AVX512_LEGACY, std='c++17', opt='-O2'),
        Config('sse42-gcc20-O2', ['SSE4_2'], std='c++20', opt='-O2'),
    ]
    seen, out = set(), []
    for x in c:                 # configurations promoted to the quick list keep their name: listed once
        if x.name not in seen:
            seen.add(x.name)
            out.append(x)
    return out


def scalar_configs(tier):
    """every subset of the scalar feature macros (the arms of Scalar*.hpp), plus two vector configurations"""
    import itertools
    feats = ['X86', 'POPCNT', 'LZCNT', 'BMI', 'BMI2']
    out = []
    for r in range(len(feats) + 1):
        for comb in itertools.combinations(feats, r):
            if tier != 'thorough' and len(comb) not in (0, 1, len(feats)) and comb not in (('POPCNT', 'LZCNT'), ('LZCNT', 'BMI2'), ('X86', 'BMI')):
                continue
            out.append(Config('s-' + ('-'.join(c.lower() for c in comb) or 'none'), list(comb)))
    out.append(Config('s-sse42', ['SSE4_2']))
    out.append(Config('s-avx512full-clang20', AVX512_FULL, cxx='clang++', std='c++20', opt='-O2'))
    return out


def configs_for(tier):
    return thorough_configs() if tier == 'thorough' else quick_configs()


def by_name(name):
    for c in thorough_configs():
        if c.name == name:
            return c
    raise KeyError(name)
