"""Per-property checks.  Each function drives: (1) bounded model checks of the
specification against the declarative property, (2) conformance of the real
code with the specification (recorded traces judged by TLC and/or TLC-generated
behaviours replayed on the code)."""
from concurrent.futures import ThreadPoolExecutor

from . import runner

INT_GROUPS = [8, 16, 32, 64]


def mc_cfg(consts, invariants=(), constraint=None, view=None, spec='Spec', properties=()):
    t = 'SPECIFICATION %s\n' % spec
    if consts:
        t += 'CONSTANTS\n' + ''.join('  %s\n' % c for c in consts)
    if invariants:
        t += 'INVARIANTS ' + ' '.join(invariants) + '\n'
    if properties:
        t += 'PROPERTIES ' + ' '.join(properties) + '\n'
    if constraint:
        t += 'CONSTRAINT %s\n' % constraint
    if view:
        t += 'VIEW %s\n' % view
    t += 'CHECK_DEADLOCK FALSE\n'
    return t


def mc_intlane(ctx, invs):
    """Operational lane semantics = declarative statement, on TLC's own integers."""
    if ctx.tier == 'thorough':
        ctx.mc('MC_IntLane', mc_cfg(['L = 1', 'Dom <- Dom8'], ['TypeOK'] + invs, 'InDom', 'View'), 'il8', workers=16)
        ctx.mc('MC_IntLane', mc_cfg(['L = 2', 'Dom <- Lat16'], ['TypeOK'] + invs, 'InDom', 'View'), 'il16', workers=16)
    else:
        ctx.mc('MC_IntLane', mc_cfg(['L = 1', 'Dom <- Lat8'], ['TypeOK'] + invs, 'InDom', 'View'), 'il8', workers=8)
        ctx.mc('MC_IntLane', mc_cfg(['L = 2', 'Dom <- Lat16q'], ['TypeOK'] + invs, 'InDom', 'View'), 'il16', workers=8)


def _with_mc(ctx, mcfn, conf):
    """Run the specification self-check concurrently with the conformance run."""
    with ThreadPoolExecutor(max_workers=2) as ex:
        f1 = ex.submit(mcfn)
        f2 = ex.submit(conf)
        f2.result()
        f1.result()


LANE_ASSUME = [
    'TLC judges the distinct facts the drivers recorded; byte-identical facts from several configurations / types / lanes are judged once (the specification does not depend on them)',
    'inputs beyond 8 bits are a boundary lattice squared plus a seeded random tail, not the full space',
    'x86-64 GCC 12 / Clang 14 only; NEON, SVE, AVX10, MSVC arms are not exercised',
]


def c01(ctx):
    ctx.assumptions += LANE_ASSUME
    _with_mc(ctx, lambda: mc_intlane(ctx, ['C01']),
             lambda: runner.lane_facts(ctx, 'drv_int.cpp', 'arith', INT_GROUPS))


def c02(ctx):
    ctx.assumptions += LANE_ASSUME
    _with_mc(ctx, lambda: mc_intlane(ctx, ['C02']),
             lambda: runner.lane_facts(ctx, 'drv_int.cpp', 'cmp', INT_GROUPS))


def c04(ctx):
    ctx.assumptions += LANE_ASSUME
    _with_mc(ctx, lambda: mc_intlane(ctx, ['C04']),
             lambda: runner.lane_facts(ctx, 'drv_int.cpp', 'bits', INT_GROUPS))


def c05(ctx):
    ctx.assumptions += LANE_ASSUME

    def mc():
        mc_intlane(ctx, ['C05'])
        ctx.mc('MC_IntLane', mc_cfg(['L = 1', 'Dom <- Lat8'], ['C05u'], 'InDom', 'View'), 'il8u', workers=8)
    _with_mc(ctx, mc, lambda: runner.lane_facts(ctx, 'drv_int.cpp', 'div', INT_GROUPS))


def c06(ctx):
    ctx.assumptions += LANE_ASSUME
    _with_mc(ctx, lambda: mc_intlane(ctx, ['C06']),
             lambda: runner.lane_facts(ctx, 'drv_int.cpp', 'bitfn', INT_GROUPS))


def c07(ctx):
    ctx.assumptions += LANE_ASSUME
    _with_mc(ctx, lambda: mc_intlane(ctx, ['C07']),
             lambda: runner.lane_facts(ctx, 'drv_int.cpp', 'select', INT_GROUPS))


CHECKS = {
    'C01': c01, 'C02': c02, 'C04': c04, 'C05': c05, 'C06': c06, 'C07': c07,
}
