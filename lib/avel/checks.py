"""Per-property checks.  Each function drives: (1) bounded model checks of the
specification against the declarative property, (2) conformance of the real
code with the specification (recorded traces judged by TLC and/or TLC-generated
behaviours replayed on the code)."""
from concurrent.futures import ThreadPoolExecutor

from . import runner

INT_GROUPS = [8, 16, 32, 64]


def mc_cfg(consts, invariants=(), constraint=None, view=None, spec='Spec', properties=()):
    t = 'SPECIFICATION %s\n' % spec
    if consts:
        t += 'CONSTANTS\n' + ''.join('  %s\n' % c for c in consts)
    if invariants:
        t += 'INVARIANTS ' + ' '.join(invariants) + '\n'
    if properties:
        t += 'PROPERTIES ' + ' '.join(properties) + '\n'
    if constraint:
        t += 'CONSTRAINT %s\n' % constraint
    if view:
        t += 'VIEW %s\n' % view
    t += 'CHECK_DEADLOCK FALSE\n'
    return t


def mc_intlane(ctx, invs):
    """Operational lane semantics = declarative statement, on TLC's own integers."""
    if ctx.tier == 'thorough':
        ctx.mc('MC_IntLane', mc_cfg(['L = 1', 'Dom <- Dom8'], ['TypeOK'] + invs, 'InDom', 'View'), 'il8', workers=16)
        ctx.mc('MC_IntLane', mc_cfg(['L = 2', 'Dom <- Lat16'], ['TypeOK'] + invs, 'InDom', 'View'), 'il16', workers=16)
    else:
        ctx.mc('MC_IntLane', mc_cfg(['L = 1', 'Dom <- Lat8'], ['TypeOK'] + invs, 'InDom', 'View'), 'il8', workers=8)
        ctx.mc('MC_IntLane', mc_cfg(['L = 2', 'Dom <- Lat16q'], ['TypeOK'] + invs, 'InDom', 'View'), 'il16', workers=8)


def _with_mc(ctx, mcfn, conf):
    """Run the specification self-check concurrently with the conformance run."""
    with ThreadPoolExecutor(max_workers=2) as ex:
        f1 = ex.submit(mcfn)
        f2 = ex.submit(conf)
        f2.result()
        f1.result()


LANE_ASSUME = [
    'TLC judges the distinct facts the drivers recorded; byte-identical facts from several configurations / types / lanes are judged once (the specification does not depend on them)',
    'inputs beyond 8 bits are a boundary lattice squared plus a seeded random tail, not the full space',
    'x86-64 GCC 12 / Clang 14 only; NEON, SVE, AVX10, MSVC arms are not exercised',
]


def c01(ctx):
    ctx.assumptions += LANE_ASSUME
    _with_mc(ctx, lambda: mc_intlane(ctx, ['C01']),
             lambda: runner.lane_facts(ctx, 'drv_int.cpp', 'arith', INT_GROUPS))


def c02(ctx):
    ctx.assumptions += LANE_ASSUME
    def conf():
        runner.lane_facts(ctx, 'drv_int.cpp', 'cmp', INT_GROUPS)
        runner.lane_facts(ctx, 'drv_fp.cpp', 'fcmp', [32, 64])
    _with_mc(ctx, lambda: mc_intlane(ctx, ['C02']), conf)


def c04(ctx):
    ctx.assumptions += LANE_ASSUME
    _with_mc(ctx, lambda: mc_intlane(ctx, ['C04']),
             lambda: runner.lane_facts(ctx, 'drv_int.cpp', 'bits', INT_GROUPS))


def c05(ctx):
    ctx.assumptions += LANE_ASSUME

    def mc():
        mc_intlane(ctx, ['C05'])
        ctx.mc('MC_IntLane', mc_cfg(['L = 1', 'Dom <- Lat8'], ['C05u'], 'InDom', 'View'), 'il8u', workers=8)
    _with_mc(ctx, mc, lambda: runner.lane_facts(ctx, 'drv_int.cpp', 'div', INT_GROUPS))


def c06(ctx):
    ctx.assumptions += LANE_ASSUME
    _with_mc(ctx, lambda: mc_intlane(ctx, ['C06']),
             lambda: runner.lane_facts(ctx, 'drv_int.cpp', 'bitfn', INT_GROUPS))


def c07(ctx):
    ctx.assumptions += LANE_ASSUME
    def conf():
        runner.lane_facts(ctx, 'drv_int.cpp', 'select', INT_GROUPS)
        runner.lane_facts(ctx, 'drv_fp.cpp', 'fselect', [32, 64])
    _with_mc(ctx, lambda: mc_intlane(ctx, ['C07']), conf)


ALL_GROUPS = [8, 16, 32, 64]


def c03(ctx):
    ctx.assumptions += LANE_ASSUME + [
        'masks wider than 16 lanes (8 in the quick tier) are exercised on structured + random patterns, not all 2^N values',
        'register programs: 4 live masks, seeded random programs; hidden representation state is only seen if some observer or later operation exposes it']

    def mc():
        for n, kb in ((1, 8), (2, 8), (4, 8), (8, 8)) + (((16, 16),) if ctx.tier == 'thorough' else ()):
            if n == 16:
                continue    # 2^32 register pairs: out of reach, N = 8 is the largest exhaustive instance
            ctx.mc('MC_Mask', mc_cfg(['N = %d' % n, 'KBits = %d' % kb, 'MaskAfterNot = TRUE'],
                                     ['TypeOK', 'C03_Algebra', 'RefinementOK'], view='View'), 'mask%d' % n, workers=4)

    def conf():
        runner.lane_facts(ctx, 'drv_mask.cpp', 'maskfacts', ALL_GROUPS)
        runner.ordered_traces(ctx, 'drv_mask.cpp', 'maskrm', ALL_GROUPS, 'TraceMask', '.rm')
    _with_mc(ctx, mc, conf)


def mc_mem(ctx):
    depth = 3 if ctx.tier == 'thorough' else 2
    for (n, w) in ((4, 1), (2, 2)) + (((4, 2),) if ctx.tier == 'thorough' else ()):
        ctx.mc('MC_Mem', mc_cfg(['PageBytes = 8', 'N = %d' % n, 'w = %d' % w, 'Strategies = {"exact", "masked"}',
                                 'MaxDepth <- MaxDepth%d' % depth],
                                ['C08', 'C09'], constraint='Bounded', view='View'), 'mem%dx%d' % (n, w), workers=8)
    # the design-level counterexample: a full-window read-modify-write violates C09
    r = runner.tlc.model_check('MC_Mem', mc_cfg(['PageBytes = 8', 'N = 4', 'w = 1', 'Strategies = {"window"}',
                                                 'MaxDepth <- MaxDepth2'],
                                                ['C09'], constraint='Bounded', view='View'), ctx.scratch, 'memwindow', workers=4)
    if r['ok'] or r['violated'] != 'C09':
        raise runner.tlc.TLCError('MC_Mem: the window strategy was expected to violate C09 (vacuity guard)')
    ctx.notes.append('MC_Mem vacuity guard: strategy "window" violates C09 as expected (%d states)' % r['states'])


MEM_ASSUME = [
    'read footprints are observed through page protection only: an over-read that stays inside the accessible page is not seen (aligned loads)',
    'write footprints are observed exactly, through sentinel bytes around every target',
    'counts above 1000 (2^31, 2^32-1) are recorded as 1000/1001: the specification only depends on min(n, width)',
]


def c08(ctx):
    ctx.assumptions += LANE_ASSUME[2:] + MEM_ASSUME
    _with_mc(ctx, lambda: mc_mem(ctx),
             lambda: runner.lane_facts(ctx, 'drv_mem.cpp', 'mem', ALL_GROUPS, env_extra={'MEMMODE': 'values'}))


def c09(ctx):
    ctx.assumptions += LANE_ASSUME[2:] + MEM_ASSUME
    _with_mc(ctx, lambda: mc_mem(ctx),
             lambda: runner.lane_facts(ctx, 'drv_mem.cpp', 'mem', ALL_GROUPS, env_extra={'MEMMODE': 'footprint'}))


DENOM_ASSUME = [
    'divisor sets: all non-zero 8-bit values; 16/32/64-bit boundary lattice + 1, -1, MIN, MAX, powers of two and neighbours + seeded random',
    'numerators per divisor: 0, +-1, MIN, MAX, the multiples of d nearest both range ends and their neighbours, powers of two, seeded random (all 256 at 8 bits)',
    'internal fields of a denominator (multiplier, shifts) are never compared',
]


def c14(ctx):
    ctx.assumptions += LANE_ASSUME[2:] + DENOM_ASSUME
    _with_mc(ctx, lambda: mc_intlane(ctx, ['C05']),
             lambda: runner.ordered_traces(ctx, 'drv_denom.cpp', 'sdenom', INT_GROUPS, 'TraceDenom', '.den'))


def c15(ctx):
    ctx.assumptions += LANE_ASSUME[2:] + DENOM_ASSUME
    _with_mc(ctx, lambda: mc_intlane(ctx, ['C05']),
             lambda: runner.ordered_traces(ctx, 'drv_denom.cpp', 'vdenom', INT_GROUPS, 'TraceDenom', '.den'))


def c20(ctx):
    ctx.assumptions += ['pointer classes: valid, null, small non-null, inside an inaccessible page on either side, last cache line of the accessible page; offsets 0..63; counts 0..3 pages; a count near SIZE_MAX is not issued (the loop would not terminate in reasonable time)',
                        'memory unchanged is observed on the accessible page (4096 bytes compared before/after)']

    def mc():
        ctx.mc('MC_Mem', mc_cfg(['PageBytes = 8', 'N = 4', 'w = 1', 'Strategies = {"exact"}', 'MaxDepth <- MaxDepth2'],
                                ['C20'], constraint='Bounded', view='View'), 'prefetch', workers=8)
    _with_mc(ctx, mc, lambda: runner.lane_facts(ctx, 'drv_prefetch.cpp', 'prefetch', [0]))


def alloc_configs(tier):
    C = runner.configs.Config
    ub = ['-fsanitize=alignment,null', '-fsanitize-undefined-trap-on-error']
    c = [C('none-gcc11', []), C('none-gcc14', [], std='c++14'), C('none-gcc17', [], std='c++17'),
         C('none-gcc20', [], std='c++20'), C('sse2-gcc11', ['SSE2']),
         C('none-clang11', [], cxx='clang++', opt='-O2'), C('none-clang20', [], cxx='clang++', std='c++20', opt='-O2'),
         C('none-gcc11-ubsan', [], extra=ub)]
    if tier == 'thorough':
        c += [C('avx2-gcc17', ['AVX2'], std='c++17', opt='-O2'), C('sse2-clang14', ['SSE2'], cxx='clang++', std='c++14'),
              C('none-gcc14-ubsan-O2', [], std='c++14', opt='-O2', extra=ub), C('none-gcc11-O0', [], opt='-O0')]
    return c


def c18(ctx):
    ctx.assumptions += [
        'the system allocator is observed by link-time interposition while an Aligned_allocator member runs; glibc malloc (16-byte aligned) is the only system heap exercised for real, TLC explores every placement in the bounded model',
        'histories: seeded random allocate / fill / deallocate sequences, 22 (T, A) instantiations, sizes 0..257 elements, at most 12 live blocks',
        'undefined behaviour is observed through -fsanitize=alignment,null in one extra build per tier']

    def mc():
        sizes = '{0, 1, 3, 8, 24}'
        for variant in ('overalloc', 'aligned', 'mm'):
            for a in ((32, 64) if ctx.tier == 'thorough' else (32,)):
                ctx.mc('MC_Alloc', mc_cfg(['ARENA = %d' % (224 if a == 32 else 320), 'G = 16', 'A = %d' % a, 'SIZES = ' + sizes,
                                           'MAXLIVE = 3', 'OVERHEAD = 8', 'Variant = "%s"' % variant, 'WordInside = FALSE'],
                                          ['C18']), 'alloc_%s_%d' % (variant, a), workers=8)
        # vacuity guard: an offset word stored inside the user range must be caught by the model
        r = runner.tlc.model_check('MC_Alloc', mc_cfg(['ARENA = 224', 'G = 16', 'A = 32', 'SIZES = ' + sizes, 'MAXLIVE = 2',
                                                       'OVERHEAD = 8', 'Variant = "overalloc"', 'WordInside = TRUE'],
                                                      ['C18']), ctx.scratch, 'alloc_guard', workers=4)
        if r['ok']:
            raise runner.tlc.TLCError('MC_Alloc: an offset word inside the user range was expected to violate C18 (vacuity guard)')
        ctx.notes.append('MC_Alloc vacuity guard: offset word inside the user range violates C18 as expected')

    def conf():
        runner.ordered_traces(ctx, 'drv_alloc.cpp', 'alloc', [0], 'TraceAlloc', '.trace', cfgs=alloc_configs(ctx.tier),
                              libs=['-Wl,--wrap=malloc,--wrap=free,--wrap=posix_memalign,--wrap=aligned_alloc'])
    _with_mc(ctx, mc, conf)


FP_GROUPS = [32, 64]
FP_ASSUME = LANE_ASSUME[:1] + [
    'inputs: special-value / binade-edge / halfway lattice (squared for binary operations) plus seeded random bit patterns; not all 2^32 / 2^64 patterns',
    'correct rounding is accepted by postcondition through exact bignum comparisons (RoundsTo); FP.tla itself is validated against an independent exact-rational oracle on labelled facts (MC_FPSelf)',
    'flush-to-zero / denormals-are-zero are off (observed in every env fact); NaN payloads and NaN signs of arithmetic results are not constrained',
] + LANE_ASSUME[2:]


def mc_fpself(ctx):
    import subprocess, os
    n = 60000 if ctx.tier == 'thorough' else 6000
    path = os.path.join(ctx.scratch, 'fpself.ndjson')
    subprocess.check_call(['python3', os.path.join(runner.VERIF, 'tools', 'fp_oracle.py'), str(n), str(ctx.seed), path])
    with open(path) as f:
        lines = f.read().split('\n')
    lines = [l for l in lines if l]
    k = 8
    paths = []
    for i in range(k):
        p = os.path.join(ctx.scratch, 'fpself_%d.ndjson' % i)
        with open(p, 'w') as f:
            f.write('\n'.join(lines[i::k]) + '\n')
        paths.append(p)
    res = runner.tlc.validate_chunks('MC_FPSelf', paths, ctx.scratch, 'fpself', parallel=8)
    tot = sum(c for c, _ in res)
    bad = sum(len(r) for _, r in res)
    if bad:
        raise runner.tlc.TLCError('FP.tla disagrees with the exact-rational oracle on %d of %d labelled facts' % (bad, tot))
    ctx.ev['states'] += tot
    ctx.ev['transitions'] += tot
    ctx.ev['mc_runs'].append({'module': 'MC_FPSelf', 'tag': 'oracle-labelled facts (correct and corrupted)', 'distinct_states': tot, 'states_generated': tot})


def _fp(ctx, family):
    ctx.assumptions += FP_ASSUME
    _with_mc(ctx, lambda: mc_fpself(ctx), lambda: runner.lane_facts(ctx, 'drv_fp.cpp', family, FP_GROUPS))


def c10(ctx):
    _fp(ctx, 'farith')


def c11(ctx):
    _fp(ctx, 'fround')


def c12(ctx):
    _fp(ctx, 'fmanip')


def c13(ctx):
    _fp(ctx, 'fclass')


def c16(ctx):
    ctx.assumptions += LANE_ASSUME + FP_ASSUME[1:3] + [
        'the scalar overloads are judged by the same lane semantics as the vector lanes (equality of scalar and lane follows through the specification); inputs restricted to the documented domain by the specification itself',
        'scalar feature subsets: every subset of {X86, POPCNT, LZCNT, BMI, BMI2} in the thorough tier, a covering selection in the quick tier']
    cfgs = runner.configs.scalar_configs(ctx.tier)
    env = {'VH_SCALAR_ONLY': '1'}
    if ctx.tier != 'thorough':
        env['VH_LIGHT'] = '1'     # 8-bit pairs / 16-bit values on the lattice (C06 / C07 judge the exhaustive sets)

    def conf():
        for fam in ('bitfn', 'select', 'bits', 'mixcmp'):
            runner.lane_facts(ctx, 'drv_int.cpp', fam, INT_GROUPS, cfgs=cfgs, run_env=env)
        for fam in ('farith', 'fround', 'fmanip', 'fclass', 'fselect'):
            runner.lane_facts(ctx, 'drv_fp.cpp', fam, FP_GROUPS, cfgs=cfgs, run_env=env)

    def mc():
        mc_intlane(ctx, ['C16', 'C06', 'C07'])
    _with_mc(ctx, mc, conf)


def c17(ctx):
    ctx.assumptions += LANE_ASSUME + ['width-1 conversions between element sizes: the 32 (source, destination) pairs AVEL defines are executed; the 24 declared-but-undefined pairs are reported by the link probe of C19']
    _with_mc(ctx, lambda: mc_intlane(ctx, ['C17']),
             lambda: runner.lane_facts(ctx, 'drv_conv.cpp', 'conv', ALL_GROUPS))


CHECKS = {
    'C01': c01, 'C02': c02, 'C03': c03, 'C04': c04, 'C05': c05, 'C06': c06, 'C07': c07, 'C08': c08, 'C09': c09, 'C10': c10, 'C11': c11, 'C12': c12, 'C13': c13, 'C14': c14, 'C16': c16, 'C17': c17, 'C15': c15, 'C18': c18, 'C20': c20,
}
