"""Per-property checks.  Each function drives: (1) bounded model checks of the
specification against the declarative property, (2) conformance of the real
code with the specification (recorded traces judged by TLC and/or TLC-generated
behaviours replayed on the code)."""
import re
from concurrent.futures import ThreadPoolExecutor

from . import runner

INT_GROUPS = [8, 16, 32, 64]


def mc_cfg(consts, invariants=(), constraint=None, view=None, spec='Spec', properties=()):
    t = 'SPECIFICATION %s\n' % spec
    if consts:
        t += 'CONSTANTS\n' + ''.join('  %s\n' % c for c in consts)
    if invariants:
        t += 'INVARIANTS ' + ' '.join(invariants) + '\n'
    if properties:
        t += 'PROPERTIES ' + ' '.join(properties) + '\n'
    if constraint:
        t += 'CONSTRAINT %s\n' % constraint
    if view:
        t += 'VIEW %s\n' % view
    t += 'CHECK_DEADLOCK FALSE\n'
    return t


def mc_intlane(ctx, invs):
    """Operational lane semantics = declarative statement, on TLC's own integers."""
    if ctx.tier == 'thorough':
        ctx.mc('MC_IntLane', mc_cfg(['L = 1', 'Dom <- Dom8'], ['TypeOK'] + invs, 'InDom', 'View'), 'il8', workers=16)
        ctx.mc('MC_IntLane', mc_cfg(['L = 2', 'Dom <- Lat16'], ['TypeOK'] + invs, 'InDom', 'View'), 'il16', workers=16)
    else:
        ctx.mc('MC_IntLane', mc_cfg(['L = 1', 'Dom <- Lat8'], ['TypeOK'] + invs, 'InDom', 'View'), 'il8', workers=8)
        ctx.mc('MC_IntLane', mc_cfg(['L = 2', 'Dom <- Lat16q'], ['TypeOK'] + invs, 'InDom', 'View'), 'il16', workers=8)


def mc_avel(ctx):
    """the composed abstract machine (spec/Avel.tla): frame conditions, environment, masks as booleans"""
    depth = 5 if ctx.tier == 'thorough' else 4
    ctx.mc('Avel', mc_cfg(['N = 2', 'W = 1', 'Kind = "u"', 'LaneDom = {0, 1, 255}', 'VRegs = {"v0", "v1"}', 'KRegs = {"k0", "k1"}', 'MemSize = 2',
                           'MaxDepth = %d' % depth],
                          ['TypeOK', 'Frame', 'EnvOnlyBySetEnv', 'MaskIsBooleans'], constraint='Bounded', view='View'),
           'avel', workers=8)


def prog_cfg(unit):
    """TLC constants of one register-program trace: the unit is the vector type, e.g. 16x8u"""
    m = re.match(r'(\d+)x(\d+)([uif])$', unit)
    n, w, k = int(m.group(1)), int(m.group(2)) // 8, m.group(3)
    return ('SPECIFICATION TraceSpec\nCONSTANTS N = %d\n  W = %d\n  Kind = "%s"\n  LaneDom = {0}\n'
            '  VRegs = {"v0", "v1", "v2", "v3"}\n  KRegs = {"k0", "k1", "k2"}\n  MemSize = %d\n  MaxDepth = 0\n'
            'INVARIANTS TypeOK Frame EnvOnlyBySetEnv MaskIsBooleans\nCHECK_DEADLOCK FALSE\n') % (n, w, k, 3 * n * w)


# Which properties an event of the composed machine speaks about.  The machine runs operations of many properties in
# one program; the check of property P gives a verdict only on rejected events P owns, the others are printed as
# ELSEWHERE lines (the owner's check, which runs the same programs, decides them).  None = no attribution: a verdict of
# whichever check runs the program (observers, unknown events).
_OWN_OP = {
    'add': ('C01',), 'sub': ('C01',), 'mul': ('C01',), 'neg': ('C01',), 'inc': ('C01',), 'dec': ('C01',),
    'and': ('C04',), 'or': ('C04',), 'xor': ('C04',), 'not': ('C04',), 'shl': ('C04',), 'shr': ('C04',), 'rotl': ('C04',), 'rotr': ('C04',),
    'min': ('C07',), 'max': ('C07',), 'average': ('C07',), 'midpoint': ('C07',), 'abs': ('C07',), 'neg_abs': ('C07',),
    'popcount': ('C06',), 'countl_zero': ('C06',), 'countl_one': ('C06',), 'countr_zero': ('C06',), 'countr_one': ('C06',),
    'byteswap': ('C06',), 'bit_width': ('C06',), 'bit_floor': ('C06',), 'bit_ceil': ('C06',), 'countl_sign': ('C06',),
}
_OWN_FOP = {
    'add': ('C10',), 'sub': ('C10',), 'mul': ('C10',), 'fdiv': ('C10',), 'sqrt': ('C10',), 'inc': ('C10',), 'dec': ('C10',),
    'neg': ('C10', 'C07'), 'abs': ('C10', 'C07'), 'neg_abs': ('C10', 'C07'), 'copysign': ('C10', 'C07'), 'min': ('C07',), 'max': ('C07',),
    'ceil': ('C11',), 'floor': ('C11',), 'trunc': ('C11',), 'round': ('C11',), 'nearbyint': ('C11',), 'rint': ('C11',),
    'frac': ('C12',), 'logb': ('C12',), 'fmax': ('C12',), 'fmin': ('C12',), 'fdim': ('C12',),
    'eq': ('C02',), 'ne': ('C02',), 'lt': ('C02',), 'le': ('C02',), 'gt': ('C02',), 'ge': ('C02',),
}
_OWN_EVENT = {
    'cmp': ('C02',), 'kset': ('C03',), 'kbin': ('C03',), 'knot': ('C03',), 'kins': ('C03',), 'kobs': ('C03',),
    'blend': ('C03', 'C07'), 'keep': ('C03', 'C07'), 'clear': ('C03', 'C07'), 'negate': ('C03', 'C07'), 'fsel': ('C03', 'C07'),
    'set_bits': ('C03', 'C07'), 'b2v': ('C03', 'C17'), 'fb2v': ('C03', 'C17'), 'nz': ('C03', 'C17'), 'fnz': ('C03', 'C17'),
    'shift': ('C04',), 'shiftv': ('C04',), 'fpred': ('C13',), 'div': ('C05',),
    'insert': ('C08',), 'extract': ('C08',), 'load': ('C08', 'C09'), 'store': ('C08', 'C09'), 'gather': ('C08', 'C09'), 'scatter': ('C08', 'C09'),
}


def avel_owners(ev):
    e, o = ev.get('e') or ev.get('fam'), ev.get('o')
    m = ev.get('m')
    if isinstance(m, list) and 'count' in ev and 'any' in ev:
        # a mask destination is logged through all its observers: when they contradict each other the mask type is at
        # fault (C03), whatever operation produced the mask
        n = sum(1 for b in m if b)
        if ev['count'] != n or (ev['any'] == 1) != (n > 0) or (ev.get('all') == 1) != (n == len(m)) or (ev.get('none') == 1) != (n == 0):
            return ('C03',)
    if e in ('bin', 'un'):
        return _OWN_OP.get(o)
    if e in ('fbin', 'fun'):
        return _OWN_FOP.get(o)
    if e == 'fcmp':
        return _OWN_FOP.get(o, ('C13',))        # isgreater ... isunordered
    return _OWN_EVENT.get(e)


def prog_traces(ctx):
    """code -> TLC for the composed machine: register programs over live vectors, masks, memory and the rounding
    mode (harness/drv_prog.cpp) replayed as behaviours of spec/Avel.tla by spec/TraceAvel.tla"""
    n = runner.ordered_traces(ctx, 'drv_prog.cpp', 'prog', INT_GROUPS, 'TraceAvel', '.prog', cfg_for=prog_cfg, owners_fn=avel_owners)      # integer and float vector types
    ctx.notes.append('composed machine (Avel.tla / TraceAvel.tla): %d distinct register-program traces validated' % n)


def gen_avel_replay(ctx):
    """TLC -> code for the composed machine: TLC (-simulate) writes random behaviours of spec/Avel.tla through
    spec/Gen_Avel.tla, one set per vector type (N, W, Kind); harness/drv_prog.cpp (family "replay") steps the real
    vectors, masks, byte arena and rounding mode through them; after every step the observed destination must be
    the post-state TLC computed."""
    import json
    import os
    import subprocess
    from . import build, tlc, facts
    num, depth = (12, 250) if ctx.tier == 'thorough' else (3, 120)
    sdir = os.path.join(ctx.scratch, 'scripts')
    os.makedirs(sdir, exist_ok=True)
    types = []
    for bits in (8, 16, 32, 64):
        for k in 'ui':
            for n in sorted(set([1, 128 // bits, 256 // bits, 512 // bits])):
                types.append((n, bits // 8, k, '%dx%d%s' % (n, bits, k)))

    def gen(t):
        n, w, k, name = t
        cfg = ('SPECIFICATION GenSpec\nCONSTANTS N = %d\n  W = %d\n  Kind = "%s"\n  LaneDom = {0}\n'
               '  VRegs = {"v0", "v1", "v2", "v3"}\n  KRegs = {"k0", "k1", "k2"}\n  MemSize = %d\n  MaxDepth = 0\n'
               'INVARIANTS TypeOK Frame EnvOnlyBySetEnv MaskIsBooleans\nACTION_CONSTRAINT Emit\nCHECK_DEADLOCK FALSE\n') % (n, w, k, 3 * n * w)
        cfgp = os.path.join(ctx.scratch, 'gen_%s.cfg' % name)
        with open(cfgp, 'w') as f:
            f.write(cfg)
        md = os.path.join(ctx.scratch, 'md_gen_' + name)
        cmd = tlc._java('2g', tmpdir=os.path.join(ctx.scratch, 'jtmp')) + ['-workers', '1', '-noGenerateSpecTE', '-simulate', 'num=%d' % num,
               '-depth', str(depth), '-seed', str(ctx.seed + 17 * n + w), '-metadir', md, '-config', cfgp, 'Gen_Avel.tla']
        p = subprocess.run(cmd, cwd=tlc.SPEC, stdout=subprocess.PIPE, stderr=subprocess.STDOUT, universal_newlines=True, timeout=1200)
        steps = []
        for ln in p.stdout.split('\n'):
            if ln.startswith('"{'):
                st = json.loads(json.loads(ln))
                if steps and st == steps[-1]:
                    continue        # TLC generated the same successor twice (a disjunction evaluated as two branches)
                steps.append(st)
        if not steps or 'rror' in p.stdout.replace('CHECK_DEADLOCK', ''):
            if not steps or 'Error' in p.stdout:
                raise tlc.TLCError('Gen_Avel produced no behaviours for %s:\n%s' % (name, p.stdout[-2000:]))
        # script for the replayer
        out = []
        prev = 0
        for st in steps:
            if st['lvl'] <= prev:
                out.append('reset')
            prev = st['lvl']
            fam, op, dst, a = st['fam'], st['op'], st['dst'], st['args']
            sp = lambda xs: ' '.join(str(x) for x in xs)
            if fam == 'setvec':
                line, exp = 'setvec %s %s' % (dst, sp(st['V'][dst])), st['V'][dst]
            elif fam == 'kset':
                line, exp = 'kset %s %s' % (dst, sp(st['K'][dst])), st['K'][dst]
            elif fam in ('bin', 'shiftv'):
                line, exp = '%s %s %s %s %s' % (fam, op, dst, a[0], a[1]), st['V'][dst]
            elif fam == 'un':
                line, exp = 'un %s %s %s' % (op, dst, a[0]), st['V'][dst]
            elif fam == 'shift':
                amt = sum(b << (8 * i) for i, b in enumerate(a[1]))
                line, exp = 'shift %s %s %s %d' % (op, dst, a[0], amt), st['V'][dst]
            elif fam in ('cmp', 'kbin'):
                line, exp = '%s %s %s %s %s' % (fam, op, dst, a[0], a[1]), st['K'][dst]
            elif fam == 'knot':
                line, exp = 'knot %s %s' % (dst, a[0]), st['K'][dst]
            elif fam == 'kins':
                line, exp = 'kins %s %s %d %d' % (dst, a[0], a[1], a[2]), st['K'][dst]
            elif fam == 'blend':
                line, exp = 'blend %s %s %s %s' % (dst, a[0], a[1], a[2]), st['V'][dst]
            elif fam in ('keep', 'clear', 'negate'):
                line, exp = '%s %s %s %s' % (fam, dst, a[0], a[1]), st['V'][dst]
            elif fam in ('set_bits', 'b2v'):
                line, exp = '%s %s %s' % (fam, dst, a[0]), st['V'][dst]
            elif fam == 'nz':
                line, exp = 'nz %s %s' % (dst, a[0]), st['K'][dst]
            elif fam == 'insert':
                line, exp = 'insert %s %s %d %s' % (dst, a[0], a[1], sp(a[2])), st['V'][dst]
            elif fam == 'load':
                line, exp = 'load %s %d %d' % (dst, a[0], a[1]), st['V'][dst]
            elif fam == 'store':
                line, exp = 'store %s %d %d' % (a[0], dst[0], dst[1]), st['mem']
            elif fam == 'gather':
                line, exp = 'gather %s %d %s %d' % (dst, a[0], a[1], a[2]), st['V'][dst]
            elif fam == 'scatter':
                line, exp = 'scatter %s %d %s %d' % (a[0], dst[0], a[1], dst[1]), st['mem']
            elif fam == 'setenv':
                line, exp = 'setenv %s' % a[0], []
            else:
                raise tlc.TLCError('Gen_Avel: unknown action family %r' % fam)
            out.append(line + ' = ' + sp(exp))
        with open(os.path.join(sdir, name + '.script'), 'w') as f:
            f.write('\n'.join(out) + '\n')
        return name, steps

    ctx.log('Gen_Avel: TLC generates behaviours for %d vector types ...' % len(types))
    with ThreadPoolExecutor(max_workers=16) as ex:
        expected = dict(ex.map(gen, types))
    nsteps = sum(len(v) for v in expected.values())
    ctx.ev['mc_runs'].append({'module': 'Gen_Avel', 'tag': 'simulate num=%d depth=%d x %d types' % (num, depth, len(types)),
                              'distinct_states': nsteps, 'states_generated': nsteps, 'edges_for_replay': nsteps})
    ctx.ev['states'] += nsteps
    ctx.ev['transitions'] += nsteps
    jobs = [('%s/%s' % (c.name, g), c, 'drv_prog.cpp', ['VH_GROUP=%s' % g]) for c in ctx.cfgs for g in INT_GROUPS]
    exes = build.build_many(jobs)
    facts.RUN_ENV = dict(os.environ, VH_SCRIPT_DIR=sdir)
    try:
        rjobs = [(tag, exe, ['replay', ctx.tier, str(ctx.seed)], os.path.join(ctx.scratch, 'rp_' + tag.replace('/', '_'))) for tag, exe in exes.items()]
        facts.run_drivers(rjobs)
    finally:
        facts.RUN_ENV = None
    replayed = 0
    for tag, exe, args, pre in rjobs:
        for name, steps in expected.items():
            path = '%s.%s.replay' % (pre, name)
            if not os.path.exists(path):
                continue            # this configuration does not have the type
            with open(path) as f:
                evs = [json.loads(l) for l in f if l.strip() and '"reset"' not in l]
            if len(evs) != len(steps):
                raise facts.DriverError('replay of %s in %s: %d events for %d steps' % (name, tag, len(evs), len(steps)))
            bad = 0
            prev_lvl, diverged = 0, False
            for i, (st, e) in enumerate(zip(steps, evs)):
                fam, dst = st['fam'], st['dst']
                if st['lvl'] <= prev_lvl:
                    diverged = False            # a new behaviour starts from the initial state
                prev_lvl = st['lvl']
                if fam in ('store', 'scatter'):
                    ok = e.get('mem') == st['mem']
                elif fam == 'setenv':
                    ok = True
                elif dst in st['V']:
                    ok = e.get('r') == st['V'][dst]
                else:
                    ok = e.get('m') == st['K'][dst] and e.get('count') == sum(st['K'][dst])
                ok = ok and e.get('sig') == 'none' and e.get('rm') == st['env']
                replayed += 1
                if not ok:
                    bad += 1
                    # the first step of a behaviour whose observed post-state differs is the one that deviates (the real
                    # objects and TLC's states are apart from then on: later differences of that behaviour say nothing new)
                    if not diverged and bad <= 6:
                        diverged = True
                        own = avel_owners({'e': fam, 'o': st['op']})
                        if own is not None and e.get('rm') != st['env']:
                            own = tuple(own) + ('C11',)
                        ev = dict(e)
                        ev.update({'o': st['op'], 'k': 'g', 'step': i + 1, 'spec_post': st['mem'] if fam in ('store', 'scatter') else (st['V'].get(dst) or st['K'].get(dst)),
                                   'spec_env': st['env'], 'args': st['args']})
                        ctx.classify(ev, [(tag, '%s:%d:replay_%s' % (name, i + 1, fam))], owners=own)
            if not bad:
                ctx.ev['traces_validated_against_impl'] += 1
    ctx.ev['tlc_behaviour_steps_replayed_on_code'] = ctx.ev.get('tlc_behaviour_steps_replayed_on_code', 0) + replayed
    ctx.log('Gen_Avel: %d steps of TLC-generated behaviours replayed on the real vector / mask types' % replayed)


def _with_mc(ctx, mcfn, conf):
    """Run the specification self-check concurrently with the conformance run."""
    with ThreadPoolExecutor(max_workers=2) as ex:
        f1 = ex.submit(mcfn)
        f2 = ex.submit(conf)
        f2.result()
        f1.result()


LANE_ASSUME = [
    'TLC judges the distinct facts the drivers recorded; byte-identical facts from several configurations / types / lanes are judged once (the specification does not depend on them)',
    'inputs beyond 8 bits are a boundary lattice squared plus a seeded random tail, not the full space',
    'x86-64 GCC 12 / Clang 14 only; NEON, SVE, AVX10, MSVC arms are not exercised',
]


def c01(ctx):
    ctx.assumptions += LANE_ASSUME
    def conf():
        runner.lane_facts(ctx, 'drv_int.cpp', 'arith', INT_GROUPS)
        prog_traces(ctx)            # + - * ++ -- and compound forms in place on live registers (composed machine)
        if ctx.tier == 'thorough':
            ctx.assumptions.append('thorough: all 2^32 operand pairs of the 16-bit types swept natively against the C++ operators in every configuration; disagreements (and only those) are judged by TLC')
            runner.lane_facts(ctx, 'drv_int.cpp', 'sweep16_arith', [16])
    _with_mc(ctx, lambda: (mc_intlane(ctx, ['C01']), mc_avel(ctx)), conf)


def c02(ctx):
    ctx.assumptions += LANE_ASSUME
    def conf():
        runner.lane_facts(ctx, 'drv_int.cpp', 'cmp', INT_GROUPS)
        if ctx.tier == 'thorough':
            ctx.assumptions.append('thorough: all 2^32 operand pairs of the 16-bit types swept natively against the C++ operators in every configuration; disagreements (and only those) are judged by TLC')
            runner.lane_facts(ctx, 'drv_int.cpp', 'sweep16_cmp', [16])
        runner.lane_facts(ctx, 'drv_fp.cpp', 'fcmp', [32, 64])
        prog_traces(ctx)            # comparisons of computed operands, consumed by mask algebra and selection
    _with_mc(ctx, lambda: (mc_intlane(ctx, ['C02']), mc_avel(ctx)), conf)


def c04(ctx):
    ctx.assumptions += LANE_ASSUME
    _with_mc(ctx, lambda: mc_intlane(ctx, ['C04']),
             lambda: (runner.lane_facts(ctx, 'drv_int.cpp', 'bits', INT_GROUPS), prog_traces(ctx)))


def c05(ctx):
    ctx.assumptions += LANE_ASSUME

    def mc():
        mc_intlane(ctx, ['C05'])
        ctx.mc('MC_IntLane', mc_cfg(['L = 1', 'Dom <- Lat8'], ['C05u'], 'InDom', 'View'), 'il8u', workers=8)
    def conf():
        runner.lane_facts(ctx, 'drv_int.cpp', 'div', INT_GROUPS)
        prog_traces(ctx)            # division of computed operands (zero lanes included) inside the register programs
        if ctx.tier == 'thorough':
            ctx.assumptions.append('thorough: all 2^32 operand pairs of the 16-bit types swept natively against the C++ operators in every configuration; disagreements (and only those) are judged by TLC')
            runner.lane_facts(ctx, 'drv_int.cpp', 'sweep16_div', [16])
    _with_mc(ctx, mc, conf)


def c06(ctx):
    ctx.assumptions += LANE_ASSUME

    def conf():
        runner.lane_facts(ctx, 'drv_int.cpp', 'bitfn', INT_GROUPS)
        prog_traces(ctx)
        if ctx.tier == 'thorough':
            # all 2^32 values of every 32-bit unary function against the compiler builtins;
            # every disagreement is forwarded to TLC (the comparison itself decides nothing)
            ctx.assumptions.append('thorough: all 2^32 lane values of the 32-bit unary functions swept natively against the <bit> builtins in every configuration; disagreements (and only those) are judged by TLC')
            runner.lane_facts(ctx, 'drv_int.cpp', 'sweep32', [32])
    _with_mc(ctx, lambda: mc_intlane(ctx, ['C06']), conf)


def c07(ctx):
    ctx.assumptions += LANE_ASSUME
    def conf():
        runner.lane_facts(ctx, 'drv_int.cpp', 'select', INT_GROUPS)
        if ctx.tier == 'thorough':
            ctx.assumptions.append('thorough: all 2^32 operand pairs of the 16-bit types swept natively against the C++ operators in every configuration; disagreements (and only those) are judged by TLC')
            runner.lane_facts(ctx, 'drv_int.cpp', 'sweep16_select', [16])
        runner.lane_facts(ctx, 'drv_fp.cpp', 'fselect', [32, 64])
        prog_traces(ctx)
        gen_avel_replay(ctx)
    _with_mc(ctx, lambda: (mc_intlane(ctx, ['C07']), mc_avel(ctx)), conf)


ALL_GROUPS = [8, 16, 32, 64]


def replay_mask_graphs(ctx):
    """TLC -> code: the complete state graph of the one-register mask machine (Gen_Mask.tla) for N in {1,2,4,8},
    one implementation test per transition, replayed on every mask type with N lanes in every configuration."""
    import json
    import os
    import re
    import subprocess
    from . import build, tlc
    scripts = {}
    for n in (1, 2, 4, 8):
        cfg = mc_cfg(['N = %d' % n], view='View').replace('CHECK_DEADLOCK FALSE', 'ACTION_CONSTRAINT Emit\nCHECK_DEADLOCK FALSE')
        r = tlc.model_check('Gen_Mask', cfg, ctx.scratch, 'genmask%d' % n, workers=1)
        if not r['ok']:
            raise tlc.TLCError('Gen_Mask failed')
        edges = re.findall(r'<<"EDGE", (\d+), "(\w+)", (\d+), (\d+), (\d+)>>', r['output'])
        path = os.path.join(ctx.scratch, 'genmask%d.txt' % n)
        with open(path, 'w') as f:
            for e in edges:
                f.write('%s %s %s %s %s\n' % e)
        scripts[n] = (path, len(edges))
        ctx.ev['states'] += r['states']
        ctx.ev['transitions'] += len(edges)
        ctx.ev['mc_runs'].append({'module': 'Gen_Mask', 'tag': 'N=%d' % n, 'distinct_states': r['states'], 'states_generated': r['generated'], 'edges_for_replay': len(edges)})
    jobs = [('%s/%s' % (c.name, g), c, 'replay_mask.cpp', ['VH_GROUP=%s' % g]) for c in ctx.cfgs for g in ALL_GROUPS]
    ctx.log('building %d replayers ...' % len(jobs))
    exes = build.build_many(jobs)
    total = 0
    from concurrent.futures import ThreadPoolExecutor

    def one(item):
        tag, exe = item
        res = []
        for n, (path, cnt) in scripts.items():
            out = os.path.join(ctx.scratch, 'rpm_%s_%d.ndjson' % (tag.replace('/', '_'), n))
            p = subprocess.run([exe, path, str(n), out], stdout=subprocess.PIPE, stderr=subprocess.PIPE, universal_newlines=True, timeout=1800)
            if p.returncode != 0:
                raise runner.facts.DriverError('replay_mask failed: %s %s' % (tag, p.stderr[-500:]))
            with open(out) as f:
                res.append((tag, n, [json.loads(l) for l in f if l.strip()]))
        return res

    with ThreadPoolExecutor(max_workers=16) as ex:
        results = [x for sub in ex.map(one, exes.items()) for x in sub]
    replayed = 0
    for tag, n, lines in results:
        bad = 0
        for e in lines:
            if e['e'] == 'summary':
                replayed += e['replayed']
            else:
                bad += 1
                ev = dict(e)
                ev['k'] = 'm'
                ctx.classify(ev, [(tag, '%s:0:replay_%s' % (e['t'], e['observer']))])
        if not bad and lines and lines[-1]['replayed']:
            ctx.ev['traces_validated_against_impl'] += 1
    ctx.ev['tlc_transitions_replayed_on_code'] = replayed
    ctx.log('replayed %d TLC-generated transitions on the real mask types' % replayed)


def c03(ctx):
    ctx.assumptions += LANE_ASSUME + [
        'masks wider than 16 lanes (8 in the quick tier) are exercised on structured + random patterns, not all 2^N values',
        'register programs: 4 live masks, seeded random programs; hidden representation state is only seen if some observer or later operation exposes it']

    def mc():
        for n, kb in ((1, 8), (2, 8), (4, 8), (8, 8)) + (((16, 16),) if ctx.tier == 'thorough' else ()):
            if n == 16:
                continue    # 2^32 register pairs: out of reach, N = 8 is the largest exhaustive instance
            ctx.mc('MC_Mask', mc_cfg(['N = %d' % n, 'KBits = %d' % kb, 'MaskAfterNot = TRUE'],
                                     ['TypeOK', 'C03_Algebra', 'RefinementOK'], view='View'), 'mask%d' % n, workers=4)

    def conf():
        runner.lane_facts(ctx, 'drv_mask.cpp', 'maskfacts', ALL_GROUPS)
        runner.lane_facts(ctx, 'drv_int.cpp', 'tomask', INT_GROUPS)       # mask(vector): lane != 0
        runner.lane_facts(ctx, 'drv_fp.cpp', 'fmask', FP_GROUPS)          # float: compares unequal to zero; Vector(mask) = 1.0 / 0.0
        runner.ordered_traces(ctx, 'drv_mask.cpp', 'maskrm', ALL_GROUPS, 'TraceMask', '.rm')
        prog_traces(ctx)          # masks produced by comparisons / conversions and consumed by blend, keep, negate, count ...
        gen_avel_replay(ctx)
        replay_mask_graphs(ctx)
    _with_mc(ctx, mc, conf)


def mc_mem(ctx):
    depth = 3 if ctx.tier == 'thorough' else 2
    for (n, w) in ((4, 1), (2, 2)) + (((4, 2),) if ctx.tier == 'thorough' else ()):
        ctx.mc('MC_Mem', mc_cfg(['PageBytes = 8', 'N = %d' % n, 'w = %d' % w, 'Strategies = {"exact", "masked"}',
                                 'MaxDepth <- MaxDepth%d' % depth],
                                ['C08', 'C09'], constraint='Bounded', view='View'), 'mem%dx%d' % (n, w), workers=8)
    # the design-level counterexample: a full-window read-modify-write violates C09
    r = runner.tlc.model_check('MC_Mem', mc_cfg(['PageBytes = 8', 'N = 4', 'w = 1', 'Strategies = {"window"}',
                                                 'MaxDepth <- MaxDepth2'],
                                                ['C09'], constraint='Bounded', view='View'), ctx.scratch, 'memwindow', workers=4)
    if r['ok'] or r['violated'] != 'C09':
        raise runner.tlc.TLCError('MC_Mem: the window strategy was expected to violate C09 (vacuity guard)')
    ctx.notes.append('MC_Mem vacuity guard: strategy "window" violates C09 as expected (%d states)' % r['states'])


MEM_ASSUME = [
    'footprints are observed three ways: page protection (buffers flush against PROT_NONE pages), sentinel bytes around every store target, and - where the kernel grants perf_event breakpoints - hardware data watchpoints on the bytes adjacent to the addressed elements (up to 16 bytes on each side) during the call, which see reads and writes, also value-preserving ones, in every configuration including AVX-512; an access further than that from the addressed range which stays inside the accessible page is not seen',
    'the watchpoint observer is only used on a CPU where masked-out elements of vmaskmov / AVX-512 masked accesses do not trigger it (calibrated at driver start); evidence counts the events it observed',
    'counts above 1000 (2^31, 2^32-1) are recorded as 1000/1001: the specification only depends on min(n, width)',
]


def c08(ctx):
    ctx.assumptions += LANE_ASSUME[2:] + MEM_ASSUME
    _with_mc(ctx, lambda: (mc_mem(ctx), mc_avel(ctx)),
             lambda: (runner.lane_facts(ctx, 'drv_mem.cpp', 'mem', ALL_GROUPS, env_extra={'MEMMODE': 'values'}), prog_traces(ctx), gen_avel_replay(ctx)))


def c09(ctx):
    ctx.assumptions += LANE_ASSUME[2:] + MEM_ASSUME + [
        'additionally, in the configurations valgrind 3.19 can execute (no AVX-512) the driver runs again under memcheck with everything around the addressed elements marked inaccessible; an over-read that stays inside the accessible page is then an event (vgerr > 0) the specification rejects']

    def conf():
        runner.lane_facts(ctx, 'drv_mem.cpp', 'mem', ALL_GROUPS, env_extra={'MEMMODE': 'footprint'})
        # the footprint of a call must not depend on what the optimiser makes of it: "full-width load, then mask" is
        # folded into one masked load at -O1 and is two instructions (the first reading the whole window) at -O0
        if not ctx.only_cfgs:
            C, configs = runner.configs.Config, runner.configs
            main_cfgs = ctx.cfgs
            unopt = [C('sse2-O0', ['SSE2'], opt='-O0'), C('avx2-O0', ['AVX2', 'FMA', 'LZCNT', 'BMI2'], opt='-O0'),
                     C('avx512f-O0', ['AVX512F'], opt='-O0'), C('avx512legacy-O0', configs.AVX512_LEGACY, opt='-O0'),
                     C('avx512full-clang20-O0', configs.AVX512_FULL, cxx='clang++', std='c++20', opt='-O0')]
            if ctx.tier == 'thorough':
                unopt += [C('avx512vl-O0', ['AVX512VL'], opt='-O0'), C('sse42-O0', ['SSE4_2'], opt='-O0'),
                          C('avx512full-O3', configs.AVX512_FULL, opt='-O3'), C('avx2-Os', ['AVX2', 'FMA'], opt='-Os'),
                          C('avx512legacy-O2-noinline', configs.AVX512_LEGACY, opt='-O2', extra=['-fno-inline'])]
            runner.lane_facts(ctx, 'drv_mem.cpp', 'mem', ALL_GROUPS, env_extra={'MEMMODE': 'footprint'}, cfgs=unopt)
            ctx.cfgs = main_cfgs
            ctx.ev['configurations'] = [c.describe() for c in main_cfgs + unopt]
        saved = ctx.cfgs
        vg = [c for c in saved if c.has('SSE2') and not c.has('AVX512F')]
        if vg:
            ctx.cfgs = vg
            runner.lane_facts(ctx, 'drv_mem.cpp', 'mem', ALL_GROUPS, env_extra={'MEMMODE': 'footprint'}, extra_defs=['VH_VALGRIND'],
                              exec_prefix=['valgrind', '-q', '--error-exitcode=0', '--undef-value-errors=no', '--error-limit=no'])
            ctx.cfgs = saved
    _with_mc(ctx, lambda: mc_mem(ctx), conf)


DENOM_ASSUME = [
    'divisor sets: all non-zero 8-bit values; 16/32/64-bit boundary lattice + 1, -1, MIN, MAX, powers of two and neighbours + seeded random',
    'numerators per divisor: 0, +-1, MIN, MAX, the multiples of d nearest both range ends and their neighbours, powers of two, seeded random (all 256 at 8 bits)',
    'internal fields of a denominator (multiplier, shifts) are never compared',
]


def c14(ctx):
    ctx.assumptions += LANE_ASSUME[2:] + DENOM_ASSUME
    _with_mc(ctx, lambda: mc_intlane(ctx, ['C05']),
             lambda: runner.ordered_traces(ctx, 'drv_denom.cpp', 'sdenom', INT_GROUPS, 'TraceDenom', '.den'))


def c15(ctx):
    ctx.assumptions += LANE_ASSUME[2:] + DENOM_ASSUME
    _with_mc(ctx, lambda: mc_intlane(ctx, ['C05']),
             lambda: runner.ordered_traces(ctx, 'drv_denom.cpp', 'vdenom', INT_GROUPS, 'TraceDenom', '.den'))


def c20(ctx):
    ctx.assumptions += ['pointer classes: valid, null, small non-null, inside an inaccessible page on either side, last cache line of the accessible page; offsets 0..63; counts 0..3 pages; a count near SIZE_MAX is not issued (the loop would not terminate in reasonable time)',
                        'memory unchanged is observed on the accessible page (4096 bytes compared before/after)']

    def mc():
        ctx.mc('MC_Mem', mc_cfg(['PageBytes = 8', 'N = 4', 'w = 1', 'Strategies = {"exact"}', 'MaxDepth <- MaxDepth2'],
                                ['C20'], constraint='Bounded', view='View'), 'prefetch', workers=8)
    _with_mc(ctx, mc, lambda: runner.lane_facts(ctx, 'drv_prefetch.cpp', 'prefetch', [0]))


def alloc_configs(tier):
    C = runner.configs.Config
    ub = ['-fsanitize=alignment,null', '-fsanitize-undefined-trap-on-error']
    c = [C('none-gcc11', []), C('none-gcc14', [], std='c++14'), C('none-gcc17', [], std='c++17'),
         C('none-gcc20', [], std='c++20'), C('sse2-gcc11', ['SSE2']),
         C('none-clang11', [], cxx='clang++', opt='-O2'), C('none-clang20', [], cxx='clang++', std='c++20', opt='-O2'),
         C('none-gcc11-ubsan', [], extra=ub)]
    if tier == 'thorough':
        c += [C('avx2-gcc17', ['AVX2'], std='c++17', opt='-O2'), C('sse2-clang14', ['SSE2'], cxx='clang++', std='c++14'),
              C('none-gcc14-ubsan-O2', [], std='c++14', opt='-O2', extra=ub), C('none-gcc11-O0', [], opt='-O0')]
    return c


def c18(ctx):
    ctx.assumptions += [
        'the system allocator is observed by link-time interposition while an Aligned_allocator member runs; glibc malloc (16-byte aligned) is the only system heap exercised for real, TLC explores every placement in the bounded model',
        'histories: seeded random allocate / fill / deallocate sequences, 22 (T, A) instantiations, sizes 0..257 elements, at most 12 live blocks',
        'undefined behaviour is observed through -fsanitize=alignment,null in one extra build per tier']

    def mc():
        sizes = '{0, 1, 3, 8, 24}'
        for variant in ('overalloc', 'aligned', 'mm'):
            for a in ((32, 64) if ctx.tier == 'thorough' else (32,)):
                ctx.mc('MC_Alloc', mc_cfg(['ARENA = %d' % (224 if a == 32 else 320), 'G = 16', 'A = %d' % a, 'SIZES = ' + sizes,
                                           'MAXLIVE = 3', 'OVERHEAD = 8', 'Variant = "%s"' % variant, 'WordInside = FALSE'],
                                          ['C18']), 'alloc_%s_%d' % (variant, a), workers=8)
        # vacuity guard: an offset word stored inside the user range must be caught by the model
        r = runner.tlc.model_check('MC_Alloc', mc_cfg(['ARENA = 224', 'G = 16', 'A = 32', 'SIZES = ' + sizes, 'MAXLIVE = 2',
                                                       'OVERHEAD = 8', 'Variant = "overalloc"', 'WordInside = TRUE'],
                                                      ['C18']), ctx.scratch, 'alloc_guard', workers=4)
        if r['ok']:
            raise runner.tlc.TLCError('MC_Alloc: an offset word inside the user range was expected to violate C18 (vacuity guard)')
        ctx.notes.append('MC_Alloc vacuity guard: offset word inside the user range violates C18 as expected')

    def conf():
        import os
        import re as _re
        wrap = ['-Wl,--wrap=malloc,--wrap=free,--wrap=posix_memalign,--wrap=aligned_alloc']
        runner.ordered_traces(ctx, 'drv_alloc.cpp', 'alloc', [0], 'TraceAlloc', '.trace', cfgs=alloc_configs(ctx.tier), libs=wrap)
        # TLC -> code: the complete state graph of the abstract history machine, one mini-history per transition
        maxlive = 4 if ctx.tier == 'thorough' else 3
        r = runner.tlc.model_check('Gen_Alloc', mc_cfg(['NSIZES = 6', 'MAXLIVE = %d' % maxlive], view='View').replace(
            'CHECK_DEADLOCK FALSE', 'ACTION_CONSTRAINT Emit\nCHECK_DEADLOCK FALSE'), ctx.scratch, 'genalloc', workers=1)
        if not r['ok']:
            raise runner.tlc.TLCError('Gen_Alloc failed')
        edges = _re.findall(r'<<"EDGE", <<([0-9, ]*)>>, "([ad])", (\d+)>>', r['output'])
        script = os.path.join(ctx.scratch, 'genalloc.script')
        with open(script, 'w') as f:
            for pre, kind, arg in edges:
                f.write('%s | %s %s\n' % (pre.replace(',', ' '), kind, arg))
        ctx.ev['mc_runs'].append({'module': 'Gen_Alloc', 'tag': 'MAXLIVE=%d' % maxlive, 'distinct_states': r['states'],
                                  'states_generated': r['generated'], 'edges_for_replay': len(edges)})
        ctx.ev['states'] += r['states']
        ctx.ev['transitions'] += len(edges)
        os.environ['VH_ALLOC_SCRIPT'] = script
        try:
            runner.ordered_traces(ctx, 'drv_alloc.cpp', 'allocgen', [0], 'TraceAlloc', '.trace', cfgs=alloc_configs(ctx.tier), libs=wrap)
        finally:
            os.environ.pop('VH_ALLOC_SCRIPT', None)
        ctx.notes.append('Gen_Alloc: %d transitions of the abstract history machine replayed as mini-histories on every (T, A) instantiation and build' % len(edges))
    _with_mc(ctx, mc, conf)


FP_GROUPS = [32, 64]
FP_ASSUME = LANE_ASSUME[:1] + [
    'inputs: special-value / binade-edge / halfway lattice (squared for binary operations) plus seeded random bit patterns; not all 2^32 / 2^64 patterns',
    'correct rounding is accepted by postcondition through exact bignum comparisons (RoundsTo); FP.tla itself is validated against an independent exact-rational oracle on labelled facts (MC_FPSelf)',
    'flush-to-zero / denormals-are-zero are off (observed in every env fact); NaN payloads and NaN signs of arithmetic results are not constrained',
] + LANE_ASSUME[2:]


def mc_fpself(ctx):
    import subprocess, os
    n = 60000 if ctx.tier == 'thorough' else 6000
    path = os.path.join(ctx.scratch, 'fpself.ndjson')
    subprocess.check_call(['python3', os.path.join(runner.VERIF, 'tools', 'fp_oracle.py'), str(n), str(ctx.seed), path])
    with open(path) as f:
        lines = f.read().split('\n')
    lines = [l for l in lines if l]
    k = 8
    paths = []
    for i in range(k):
        p = os.path.join(ctx.scratch, 'fpself_%d.ndjson' % i)
        with open(p, 'w') as f:
            f.write('\n'.join(lines[i::k]) + '\n')
        paths.append(p)
    res = runner.tlc.validate_chunks('MC_FPSelf', paths, ctx.scratch, 'fpself', parallel=8)
    tot = sum(c for c, _ in res)
    bad = sum(len(r) for _, r in res)
    if bad:
        raise runner.tlc.TLCError('FP.tla disagrees with the exact-rational oracle on %d of %d labelled facts' % (bad, tot))
    ctx.ev['states'] += tot
    ctx.ev['transitions'] += tot
    ctx.ev['mc_runs'].append({'module': 'MC_FPSelf', 'tag': 'oracle-labelled facts (correct and corrupted)', 'distinct_states': tot, 'states_generated': tot})


def _fp(ctx, family):
    ctx.assumptions += FP_ASSUME
    def conf():
        runner.lane_facts(ctx, 'drv_fp.cpp', family, FP_GROUPS)
        if family in ('farith', 'fround', 'fmanip', 'fclass'):
            # float register programs with fesetround steps in between: every lane judged under the rounding mode
            # the specification's own state holds at that point (composed machine, TraceAvel.tla)
            prog_traces(ctx)
    _with_mc(ctx, lambda: (mc_fpself(ctx), mc_avel(ctx) if family == 'fround' else None), conf)


def c10(ctx):
    _fp(ctx, 'farith')


def c11(ctx):
    _fp(ctx, 'fround')
    # "no AVEL operation leaves the rounding mode or the flush-to-zero settings different": every float operation again
    # with FTZ / DAZ set by the caller, in all four rounding modes; only the environment facts are judged (FEnv.tla)
    ctx.assumptions.append('environment preservation is observed around every call of every family (FTZ = DAZ = 0, four rounding modes) and, in the fenv family, around every float operation with FTZ and/or DAZ set by the caller')
    runner.lane_facts(ctx, 'drv_fp.cpp', 'fenv', FP_GROUPS)
    # ... and "no AVEL operation" includes the integer ones (an emulation through float conversions may set a rounding
    # mode): the environment facts of the integer drivers are judged here, and only here (their lane facts belong to
    # C01 / C04 / C05 / C06 / C07 and are not looked at)
    ctx.assumptions.append('the integer operation families (arith, bits, div, bitfn, select) are run once more and their environment facts (rounding control, FTZ, DAZ before / after every call) judged')
    for fam in ('arith', 'bits', 'div', 'bitfn', 'select'):
        runner.lane_facts(ctx, 'drv_int.cpp', fam, INT_GROUPS, only=lambda ln: ln.startswith('{"o":"env"'))
    # "whichever of the four rounding modes is current at the call": also when the program wrote MXCSR alone and the x87
    # control word still holds another mode (FEnv!CurrentMode)
    ctx.assumptions.append('nearbyint / rint are called again with the x87 rounding control deliberately different from MXCSR (quick: one derangement of the four modes, thorough: all twelve unequal pairs); the expected result follows MXCSR, as the C library does for float and double on this platform')
    runner.lane_facts(ctx, 'drv_fp.cpp', 'fsplit', FP_GROUPS)
    if ctx.tier == 'thorough':
        ctx.assumptions.append('thorough: all 2^32 binary32 patterns of ceil/floor/trunc/round/nearbyint/rint/sqrt (RN and RD) and of logb/frac/abs/neg/classification swept natively against <cmath> in the quick configurations; disagreements (other than the sign of a zero computed from a non-zero input) are judged by TLC')
        saved = ctx.cfgs
        ctx.cfgs = runner.configs.quick_configs()
        runner.lane_facts(ctx, 'drv_fp.cpp', 'fsweep', [32])
        ctx.cfgs = saved


def c12(ctx):
    _fp(ctx, 'fmanip')


def c13(ctx):
    _fp(ctx, 'fclass')


def c16(ctx):
    ctx.assumptions += LANE_ASSUME + FP_ASSUME[1:3] + [
        'the scalar overloads are judged by the same lane semantics as the vector lanes (equality of scalar and lane follows through the specification); inputs restricted to the documented domain by the specification itself',
        'scalar feature subsets: every subset of {X86, POPCNT, LZCNT, BMI, BMI2} in the thorough tier, a covering selection in the quick tier']
    cfgs = runner.configs.scalar_configs(ctx.tier)
    env = {'VH_SCALAR_ONLY': '1'}
    if ctx.tier != 'thorough':
        env['VH_LIGHT'] = '1'     # 8-bit pairs / 16-bit values on the lattice (C06 / C07 judge the exhaustive sets)

    def conf():
        for fam in ('bitfn', 'select', 'bits', 'mixcmp'):
            runner.lane_facts(ctx, 'drv_int.cpp', fam, INT_GROUPS, cfgs=cfgs, run_env=env)
        for fam in ('farith', 'fround', 'fsplit', 'fmanip', 'fclass', 'fselect'):
            runner.lane_facts(ctx, 'drv_fp.cpp', fam, FP_GROUPS, cfgs=cfgs, run_env=env)

    def mc():
        mc_intlane(ctx, ['C16', 'C06', 'C07'])
    _with_mc(ctx, mc, conf)


def c17(ctx):
    ctx.assumptions += LANE_ASSUME + ['width-1 conversions between element sizes: the 32 (source, destination) pairs AVEL defines are executed; the 24 declared-but-undefined pairs are reported by the link probe of C19']
    _with_mc(ctx, lambda: mc_intlane(ctx, ['C17']),
             lambda: (runner.lane_facts(ctx, 'drv_conv.cpp', 'conv', ALL_GROUPS), prog_traces(ctx)))   # Vector(mask) / mask(Vector) steps


CHECKS = {
    'C01': c01, 'C02': c02, 'C03': c03, 'C04': c04, 'C05': c05, 'C06': c06, 'C07': c07, 'C08': c08, 'C09': c09, 'C10': c10, 'C11': c11, 'C12': c12, 'C13': c13, 'C14': c14, 'C16': c16, 'C17': c17, 'C15': c15, 'C18': c18, 'C20': c20,
}


# ----------------------------------------------------------------------
# C19: every configuration compiles and exposes the documented types / API
# ----------------------------------------------------------------------
def c19(ctx):
    import json
    import os
    import re
    import subprocess
    from concurrent.futures import ThreadPoolExecutor
    from . import build, configs, facts, tlc
    C = configs.Config
    ctx.assumptions += [
        'a configuration is "replayed" by compiling it: probe translation units are built from /repo per macro set, explicitly named and with AVEL_AUTO_DETECT + the matching compiler flags',
        'GCC 12 and Clang 14, C++11/14/17/20; AVX10 is not coverable (no compiler here accepts -mavx10.1); ARM / MSVC arms are not exercised',
        'API table: a fixed list of ~150 operations taken from the documentation; an operation counts as offered by the width-1 vector if the call expression is well-formed for it',
    ]
    inc = os.path.join(build.repo_root(), 'include')
    singles = ['X86', 'POPCNT', 'LZCNT', 'BMI', 'BMI2', 'PREFETCH', 'SSE2', 'SSE3', 'SSSE3', 'SSE4_1', 'SSE4_2', 'AVX', 'AVX2', 'FMA',
               'AVX512F', 'AVX512VL', 'AVX512BW', 'AVX512DQ', 'AVX512CD', 'AVX512VPOPCNTDQ', 'AVX512BITALG', 'AVX512VBMI', 'AVX512VBMI2', 'GFNI']
    named_sets = [[]] + [[m] for m in singles] + [configs.AVX512_LEGACY, configs.AVX512_FULL, ['POPCNT', 'LZCNT', 'BMI2'],
                                                  ['AVX2', 'FMA', 'LZCNT', 'BMI2'], ['AVX512VL', 'AVX512BW']]
    if ctx.tier == 'thorough':
        import itertools
        subs = ['AVX512VL', 'AVX512BW', 'AVX512DQ', 'AVX512CD', 'AVX512VPOPCNTDQ', 'AVX512BITALG', 'AVX512VBMI', 'AVX512VBMI2', 'GFNI']
        for r in (2, 3):
            for comb in itertools.combinations(subs, r):
                named_sets.append(list(comb))
        for r in range(2, 5):
            for comb in itertools.combinations(['POPCNT', 'LZCNT', 'BMI', 'BMI2'], r):
                named_sets.append(list(comb))
    matrix = [('g++', 'c++11')]
    extra_matrix = [('g++', 'c++14'), ('g++', 'c++17'), ('g++', 'c++20'), ('clang++', 'c++11'), ('clang++', 'c++14'), ('clang++', 'c++17'), ('clang++', 'c++20')]
    jobs = []
    for ns in named_sets:
        for (cxx, std) in matrix:
            for auto in (0, 1):
                jobs.append((ns, cxx, std, auto))
    core = [[], ['SSE2'], ['AVX2'], configs.AVX512_FULL] if ctx.tier != 'thorough' else [[]] + [[m] for m in singles] + [configs.AVX512_FULL]
    for ns in core:
        for (cxx, std) in extra_matrix:
            for auto in (0, 1):
                jobs.append((ns, cxx, std, auto))
    probe_src = os.path.join(build.HARNESS, 'probe_config.cpp')

    def flags_for(ns, cxx, std, auto):
        c = C('x', ns, cxx=cxx, std=std, opt='-O0')
        f = [cxx, '-std=' + std, '-O0', '-I' + inc]
        f += ['-DAVEL_AUTO_DETECT'] if auto else ['-DAVEL_' + m for m in ns]
        for m in sorted(c.closed):
            if m in configs.FLAG and m != 'PREFETCH':
                f.append(configs.FLAG[m])
        return f

    PREDEF = {'__SSE2__': 'SSE2', '__SSE3__': 'SSE3', '__SSSE3__': 'SSSE3', '__SSE4_1__': 'SSE4_1', '__SSE4_2__': 'SSE4_2',
              '__AVX__': 'AVX', '__AVX2__': 'AVX2', '__FMA__': 'FMA', '__AVX512F__': 'AVX512F', '__AVX512VL__': 'AVX512VL',
              '__AVX512BW__': 'AVX512BW', '__AVX512DQ__': 'AVX512DQ', '__AVX512CD__': 'AVX512CD', '__AVX512VPOPCNTDQ__': 'AVX512VPOPCNTDQ',
              '__AVX512BITALG__': 'AVX512BITALG', '__AVX512VBMI__': 'AVX512VBMI', '__AVX512VBMI2__': 'AVX512VBMI2', '__GFNI__': 'GFNI',
              '__POPCNT__': 'POPCNT', '__LZCNT__': 'LZCNT', '__BMI__': 'BMI', '__BMI2__': 'BMI2'}

    def enabled_by_flags(ns, cxx, std):
        # AVEL_AUTO_DETECT must behave like naming the macros of every extension the compiler flags enable
        # (compilers enable more than was asked for: x86-64 always has SSE2, -mavx512vbmi turns on AVX-512BW, ...)
        f = [x for x in flags_for(ns, cxx, std, 0) if not x.startswith('-DAVEL_') and not x.startswith('-I')]
        p = subprocess.run(f + ['-dM', '-E', '-x', 'c++', '/dev/null'], stdout=subprocess.PIPE, stderr=subprocess.STDOUT, universal_newlines=True)
        out = set()
        for ln in p.stdout.splitlines():
            parts = ln.split()
            if len(parts) >= 2 and parts[1] in PREDEF:
                out.add(PREDEF[parts[1]])
        return sorted(out)

    def run_probe(j):
        ns, cxx, std, auto = j
        ns_for_spec = enabled_by_flags(ns, cxx, std) if auto else ns
        tag = '%s_%s_%s_%d' % ('-'.join(ns) or 'none', cxx, std, auto)
        exe = os.path.join(ctx.scratch, 'probe_' + tag)
        cmd = flags_for(ns, cxx, std, auto) + [probe_src, '-o', exe]
        p = subprocess.run(cmd, stdout=subprocess.PIPE, stderr=subprocess.STDOUT, universal_newlines=True)
        head = '{"o":"probe","k":"c","named":%s,"flags_for":%s,"auto":%d,"cxx":"%s","std":"%s",' % (json.dumps(ns_for_spec), json.dumps(ns), auto, cxx, std)
        if p.returncode != 0:
            err = [l for l in p.stdout.splitlines() if 'error' in l][:1]
            return tag, head + '"compiled":0,"defined":[],"types":[],"maxw":[],"natw":[],"layout_ok":0,"err":%s,"sig":"none"}' % json.dumps((err or ['?'])[0][-160:])
        q = subprocess.run([exe], stdout=subprocess.PIPE, stderr=subprocess.PIPE, universal_newlines=True)
        os.unlink(exe)
        if q.returncode != 0:
            return tag, head + '"compiled":1,"defined":[],"types":[],"maxw":[],"natw":[],"layout_ok":0,"sig":"crash"}'
        return tag, head + '"compiled":1,' + q.stdout.strip() + ',"sig":"none"}'

    ctx.log('compiling %d configuration probes ...' % len(jobs))
    with ThreadPoolExecutor(max_workers=16) as ex:
        probe_events = list(ex.map(run_probe, jobs))

    # standalone inclusion of each public header
    inc_jobs = []
    # single headers, and the two documented entry headers in either order / after the intrinsics header / twice
    for hdr in ('avel/Avel.hpp', 'avel/Aligned_allocator.hpp', 'avel/Cache.hpp', 'avel/Vector.hpp', 'avel/Scalar.hpp',
                'avel/Avel.hpp+avel/Aligned_allocator.hpp', 'avel/Aligned_allocator.hpp+avel/Avel.hpp', 'immintrin.h+avel/Avel.hpp',
                'avel/Avel.hpp+avel/Avel.hpp'):
        for (cxx, std) in matrix + extra_matrix:
            for ns in ([], ['SSE2']):
                inc_jobs.append((hdr, cxx, std, ns))

    def run_inc(j):
        hdr, cxx, std, ns = j
        src = os.path.join(ctx.scratch, 'inc_%s_%s_%s_%s.cpp' % (hdr.replace('/', '_').replace('+', '-'), cxx, std, '-'.join(ns) or 'none'))
        with open(src, 'w') as f:
            f.write(''.join('#include <%s>\n' % h for h in hdr.split('+')) + 'int main() { return 0; }\n')
        cmd = flags_for(ns, cxx, std, 0) + ['-fsyntax-only', src]
        p = subprocess.run(cmd, stdout=subprocess.PIPE, stderr=subprocess.STDOUT, universal_newlines=True)
        err = [l for l in p.stdout.splitlines() if 'error' in l][:1]
        return '%s_%s_%s' % (hdr, cxx, std), '{"o":"include","k":"c","header":"%s","named":%s,"cxx":"%s","std":"%s","compiled":%d,"err":%s,"sig":"none"}' % (
            hdr, json.dumps(ns), cxx, std, int(p.returncode == 0), json.dumps((err or [''])[0][-160:]))

    with ThreadPoolExecutor(max_workers=16) as ex:
        inc_events = list(ex.map(run_inc, inc_jobs))

    # API table: declared for width 1 => declared and defined for every wider vector
    api_cfgs = [C('sse2', ['SSE2'], opt='-O0'), C('avx2', ['AVX2', 'FMA'], opt='-O0'), C('avx512legacy', configs.AVX512_LEGACY, opt='-O0')]
    if ctx.tier == 'thorough':
        api_cfgs += [C('sse42', ['SSE4_2'], opt='-O0'), C('avx512full', configs.AVX512_FULL, opt='-O0'),
                     C('avx512full-clang20', configs.AVX512_FULL, cxx='clang++', std='c++20', opt='-O0')]
    api_src = os.path.join(build.HARNESS, 'probe_api.cpp')

    def run_api(j):
        cfg, g = j
        base = [x for x in cfg.flags() if x != '-frounding-math'] + ['-I' + inc, '-I' + build.HARNESS, '-DVH_GROUP=%d' % g, api_src]
        exe = os.path.join(ctx.scratch, 'api_%s_%d' % (cfg.name, g))
        p = subprocess.run(base + ['-o', exe], stdout=subprocess.PIPE, stderr=subprocess.STDOUT, universal_newlines=True)
        if p.returncode != 0:
            raise build.BuildError('API probe (detection phase) failed to build for %s/%d:\n%s' % (cfg.name, g, p.stdout[-2000:]))
        decl = subprocess.run([exe], stdout=subprocess.PIPE, universal_newlines=True).stdout.split('\n')
        os.unlink(exe)
        p2 = subprocess.run(base + ['-DVH_PHASE=2', '-o', exe], stdout=subprocess.PIPE, stderr=subprocess.STDOUT, universal_newlines=True)
        undef = set()
        for m in re.finditer(r"undefined reference to `([^']*)'", p2.stdout):
            undef.add(m.group(1))
        if p2.returncode != 0 and not undef:
            raise build.BuildError('API probe (link phase) failed for another reason than undefined references, %s/%d:\n%s' % (cfg.name, g, p2.stdout[-2000:]))
        if os.path.exists(exe):
            os.unlink(exe)
        # two translation units of one program: "generic code ... builds and links"
        o1, o2 = exe + '_1.o', exe + '_2.o'
        multi = set()
        pa = subprocess.run(base + ['-DVH_PHASE=2', '-c', '-o', o1], stdout=subprocess.PIPE, stderr=subprocess.STDOUT, universal_newlines=True)
        pb = subprocess.run(base + ['-DVH_PHASE=2', '-DVH_TU2', '-c', '-o', o2], stdout=subprocess.PIPE, stderr=subprocess.STDOUT, universal_newlines=True)
        if pa.returncode == 0 and pb.returncode == 0:
            pl = subprocess.run([cfg.cxx, o1, o2, '-o', exe], stdout=subprocess.PIPE, stderr=subprocess.STDOUT, universal_newlines=True)
            for m in re.finditer(r"multiple definition of `([^']*)'", pl.stdout):
                multi.add(m.group(1))
        for f in (o1, o2, exe):
            if os.path.exists(f):
                os.unlink(f)
        return cfg, g, decl, undef, multi

    ctx.log('API probes ...')
    with ThreadPoolExecutor(max_workers=16) as ex:
        api_results = list(ex.map(run_api, [(c, g) for c in api_cfgs for g in (8, 16, 32, 64)]))

    def sym_matches(sym, op, tname):
        # "avel::fmod(avel::Vector<float, 4u>, ...)" against op "fmod", type "4x32f"
        m = re.match(r'(\d+)x(\d+)([uif])', tname)
        n, bits, k = m.group(1), m.group(2), m.group(3)
        cty = {('8', 'u'): 'unsigned char', ('8', 'i'): 'signed char', ('16', 'u'): 'unsigned short', ('16', 'i'): 'short',
               ('32', 'u'): 'unsigned int', ('32', 'i'): 'int', ('64', 'u'): 'unsigned long', ('64', 'i'): 'long',
               ('32', 'f'): 'float', ('64', 'f'): 'double'}[(bits, k)]
        fn = op[3:] if op.startswith('op_') else op
        opsym = {'mod': 'fmod', 'mod_eq': 'fmod'}.get(fn, fn)
        return ('avel::%s(' % opsym) in sym and ('<%s, %su>' % (cty, n)) in sym

    api_lines = []
    n_api = 0
    for cfg, g, decl, undef, multi in api_results:
        for sym in sorted(multi):
            api_lines.append(('%s/%d' % (cfg.name, g), '{"o":"api","k":"c","op":%s,"t":"?","declared_w1":1,"declared":1,"defined":1,"multiple":1,"sig":"none"}' % json.dumps(sym[:150])))
        for ln in decl:
            parts = ln.split()
            if len(parts) != 4:
                continue
            op, tname, w1, wd = parts[0], parts[1], int(parts[2]), int(parts[3])
            defined = 0 if any(sym_matches(s, op, tname) for s in undef) else 1
            n_api += 1
            if w1 and not (wd and defined) or not defined:
                api_lines.append(('%s/%d' % (cfg.name, g), '{"o":"api","k":"c","op":"%s","t":"%s","declared_w1":%d,"declared":%d,"defined":%d,"sig":"none"}' % (op, tname, w1, wd, defined)))
            elif len(api_lines) < 40:
                api_lines.append(('%s/%d' % (cfg.name, g), '{"o":"api","k":"c","op":"%s","t":"%s","declared_w1":%d,"declared":%d,"defined":%d,"sig":"none"}' % (op, tname, w1, wd, defined)))
        for s in undef:   # an undefined symbol that no table row explains is still an event
            if not any(sym_matches(s, ln.split()[0], ln.split()[1]) for ln in decl if len(ln.split()) == 4):
                api_lines.append(('%s/%d' % (cfg.name, g), '{"o":"api","k":"c","op":%s,"t":"?","declared_w1":1,"declared":1,"defined":0,"sig":"none"}' % json.dumps(s[:150])))
    ctx.ev['api_table_rows_observed'] = n_api

    # hand everything to TLC
    allev = [(t, l) for t, l in probe_events] + [(t, l) for t, l in inc_events] + api_lines
    path = os.path.join(ctx.scratch, 'config.ndjson')
    with open(path, 'w') as f:
        f.write('\n'.join(l for _, l in allev) + '\n')
    cnt, rej = tlc.validate_trace('TraceFacts', path, ctx.scratch, 'config')
    ctx.ev['states'] += cnt + 1
    ctx.ev['transitions'] += cnt + 1
    ctx.ev['facts_judged_by_tlc'] += cnt
    ctx.ev['traces_validated_against_impl'] += len(allev) - len(rej)
    ctx.ev['driver_outputs'] += len(allev)
    ctx.ev['configurations'] = [{'probes': len(probe_events), 'include_probes': len(inc_events), 'api_configs': [c.name for c in api_cfgs]}]
    for r in rej:
        tag, line = allev[r - 1]
        ev = json.loads(line)
        name = '+'.join(ev.get('named', [])) if 'named' in ev else tag.split('/')[0]
        cfgname = 'cfg'
        # give the known-findings matcher a Config to test predicates against
        cc = C(name or 'none', ev.get('named', []) if 'named' in ev else next((c.macros for c in api_cfgs if c.name == tag.split('/')[0]), []),
               cxx=ev.get('cxx', 'g++'), std=ev.get('std', 'c++11'))
        ctx.cfgs = [cc]
        ctx.classify(ev, [(cc.name, '%s:0:%s' % (ev.get('t', ev.get('header', 'probe')), ev.get('op', 'auto%s' % ev.get('auto', ''))))])
    for t, l in allev[:3] + api_lines[:2]:
        ctx.ev['samples'].append(json.loads(l))

    # bounded check of the configuration model itself
    ctx.mc('MC_Config', mc_cfg([], ['ClosureLaws', 'TableMonotone', 'AliasConsistent']), 'config', workers=8)


CHECKS['C19'] = c19


# ----------------------------------------------------------------------
# setup: warm the content-addressed build cache for the quick tier
# ----------------------------------------------------------------------
def warm(args=None):
    import sys
    from . import build, configs
    q = configs.quick_configs()
    jobs = []
    for c in q:
        for g in INT_GROUPS:
            for src in ('drv_int.cpp', 'drv_mask.cpp', 'drv_mem.cpp', 'drv_denom.cpp', 'drv_conv.cpp', 'drv_prog.cpp'):
                jobs.append(('%s/%s/%s' % (src, c.name, g), c, src, ['VH_GROUP=%s' % g]))
        for g in FP_GROUPS:
            jobs.append(('drv_fp/%s/%s' % (c.name, g), c, 'drv_fp.cpp', ['VH_GROUP=%s' % g]))
        jobs.append(('drv_prefetch/%s' % c.name, c, 'drv_prefetch.cpp', ['VH_GROUP=0']))
    for c in configs.scalar_configs('quick'):
        for g in INT_GROUPS:
            jobs.append(('s_int/%s/%s' % (c.name, g), c, 'drv_int.cpp', ['VH_GROUP=%s' % g]))
        for g in FP_GROUPS:
            jobs.append(('s_fp/%s/%s' % (c.name, g), c, 'drv_fp.cpp', ['VH_GROUP=%s' % g]))
    for c in alloc_configs('quick'):
        jobs.append(('alloc/%s' % c.name, c, 'drv_alloc.cpp', ['VH_GROUP=0'], [],
                     ['-Wl,--wrap=malloc,--wrap=free,--wrap=posix_memalign,--wrap=aligned_alloc']))
    print('warming build cache: %d driver binaries ...' % len(jobs))
    sys.stdout.flush()
    try:
        build.build_many(jobs)
    except build.BuildError as e:
        print('WARNING: a driver failed to build during setup (checks will report it):', str(e)[:500])
    print('build cache ready')
    return 0
